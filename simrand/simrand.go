// Package simrand is the randomness seam: an io.Reader whose bytes are expanded
// from the run's tape (stream "rand"), with optional injected short reads,
// transient errors and biased prefixes.
package simrand

import (
	"errors"

	"verif/simrt"
)

// ErrEntropy is the injected read failure.
var ErrEntropy = errors.New("simrand: injected entropy source failure")

// Reader reads tape-derived bytes.
type Reader struct {
	T *simrt.Tape
	// ShortDen > 0: with probability 1/ShortDen a Read returns fewer bytes than asked.
	ShortDen int
	// ErrDen > 0: with probability 1/ErrDen a Read fails with ErrEntropy.
	ErrDen int
	// Prefixes: with probability 1/PrefixDen the next Read starts with one of
	// these byte strings (to enter rejection loops and range checks).
	Prefixes  [][]byte
	PrefixDen int
	Reads     int
	// Override, if set, may supply the bytes of a Read itself (returning
	// true): the harness steering one particular draw, e.g. a DH exponent.
	Override func(p []byte) bool
}

// New returns a fault-free reader.
func New(t *simrt.Tape) *Reader { return &Reader{T: t} }

func (r *Reader) Read(p []byte) (int, error) {
	r.Reads++
	if len(p) == 0 {
		return 0, nil
	}
	if r.Override != nil && r.Override(p) {
		return len(p), nil
	}
	if r.ErrDen > 0 && r.T.Coin(simrt.Rand, 1, r.ErrDen) {
		simrt.FaultFired("entropy-error", "")
		return 0, ErrEntropy
	}
	n := len(p)
	if r.ShortDen > 0 && n > 1 && r.T.Coin(simrt.Rand, 1, r.ShortDen) {
		n = 1 + r.T.Choose(simrt.Rand, n-1)
		simrt.FaultFired("entropy-short-read", "%d of %d", n, len(p))
	}
	r.T.Fill(simrt.Rand, p[:n])
	if r.PrefixDen > 0 && len(r.Prefixes) > 0 && r.T.Coin(simrt.Rand, 1, r.PrefixDen) {
		pre := r.Prefixes[r.T.Choose(simrt.Rand, len(r.Prefixes))]
		copy(p[:n], pre)
		simrt.FaultFired("entropy-biased-prefix", "%x", pre)
	}
	return n, nil
}
