#!/bin/sh
# ./check.sh <property> quick|thorough        run the check
# ./check.sh <property> replay <file>         replay a violation
# ./check.sh selftest [world...]              determinism self-test
# GOSUMDB is deliberately left alone: "off" breaks the offline go1.25.0 toolchain switch.
cd "$(dirname "$0")" || exit 2
export GOFLAGS=-mod=mod GOPROXY=off GOTOOLCHAIN=auto
unset GOSUMDB
mkdir -p bin
go build -o bin/check ./cmd/check || { echo "check.sh: cannot build orchestrator" >&2; exit 2; }
exec ./bin/check "$@"
