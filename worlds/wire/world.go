package wire

import (
	"context"
	"encoding/binary"
	"errors"
	"fmt"
	"sort"
	"testing"
	"time"

	"github.com/gotd/td/bin"
	"github.com/gotd/td/crypto"
	"github.com/gotd/td/mt"
	"github.com/gotd/td/mtproto"
	"github.com/gotd/td/proto"

	"verif/dst"
	"verif/simrand"
	"verif/simrt"
)

var World = dst.World{
	Name:  "wire",
	Props: []string{"C04", "C05", "C07", "C08", "C23", "C24", "C41", "C43"},
	Run:   run,
	Real: []string{"mtproto.Conn (Run, readLoop/consumeMessage, write path, ackLoop, pingLoop, saltLoop, Invoke, Ping, all handle* functions)", "rpc.Engine", "crypto client cipher (encrypt/decrypt, msg_key check)",
		"proto.MessageIDGen / MessageIDBuf", "mtproto/salts.Salts", "proto containers/gzip/rpc_result decoding"},
	Stub: []string{"scripted server endpoint (crypto.NewServerCipher and, for illegal paddings, the harness's own MTProto 2.0 encryption)", "frame-level transport.Conn with drop/dup/delay/replay/reflect/corrupt faults", "clock.Clock with skew and jumps", "recording mtproto.Handler"},
}

func run(t *testing.T, tape *simrt.Tape, env dst.Env) *simrt.Outcome {
	scen := env.Prop
	if scen == "" {
		scen = simrt.Pick(tape, simrt.Cfg, "C04", "C05", "C07", "C08", "C23", "C41", "C43")
	}
	f := map[string]func(*testing.T, *simrt.Tape, dst.Env) *simrt.Outcome{
		"C04": runC04, "C05": runC05, "C07": runC07, "C08": runC08, "C23": runC23, "C24": runC24, "C41": runC41, "C43": runC43,
	}[scen]
	out := f(t, tape, env)
	if out.HarnessErr == "" && out.Panic != "" {
		if out.PanicInRepo() {
			// a panic of the connection code while handling what the peer sent
			out.AddViolation("C23", "C23.panic", "panic scenario="+scen, "connection code panicked in task %s: %s", out.PanicTask, out.PanicLine())
			if scen != "C23" {
				out.AddViolation(scen, scen+".panic", "panic", "connection code panicked in task %s: %s", out.PanicTask, out.PanicLine())
			}
		} else {
			out.HarnessErr = "panic in world wire (" + scen + "): " + out.Panic
		}
	}
	return out
}

// runConn starts conn.Run in a task and returns a channel with its result.
func (fx *fixture) runConn(ctx context.Context, f func(ctx context.Context) error) chan error {
	done := make(chan error, 1)
	// Run keeps the connection up until its context ends; the scenario function
	// returning is the end of the scenario.
	rctx, rcancel := context.WithCancel(ctx)
	simrt.Go("conn.Run", func() {
		err := fx.conn.Run(rctx, func(ctx context.Context) error {
			err := f(ctx)
			fx.userDone = true
			rcancel()
			return err
		})
		fx.ended = true
		simrt.Ev("conn-run-exit", "err=%v", err)
		simrt.Send(0, done, err)
	})
	simrt.Go("server", fx.srv.serve)
	return done
}

// ---- C04 -------------------------------------------------------------------------------

type blobReq struct {
	tag int64
	n   int
}

func (r blobReq) Encode(b *bin.Buffer) error {
	b.PutID(0x5eed0003)
	b.PutLong(r.tag)
	for i := 0; i < r.n; i++ {
		b.PutInt32(int32(r.tag) + int32(i))
	}
	return nil
}

func pickLen(tape *simrt.Tape) int {
	switch tape.Choose(simrt.Wl, 8) {
	case 0:
		return 0
	case 1:
		return 4 * tape.Choose(simrt.Wl, 4)
	case 2:
		return 4 * (1 + tape.Choose(simrt.Wl, 12)) // around the 16-byte block boundaries
	case 3:
		return 1024 - 16 + 4*tape.Choose(simrt.Wl, 8) // compression threshold
	case 4:
		return 4 * tape.Choose(simrt.Wl, 4096)
	case 5:
		return 1<<20 - 4*tape.Choose(simrt.Wl, 8)
	default:
		return 4 * tape.Choose(simrt.Wl, 256)
	}
}

func runC04(t *testing.T, tape *simrt.Tape, env dst.Env) *simrt.Outcome {
	return simrt.Run(t, tape, simrt.Options{Policy: -1}, func(s *simrt.Sim) {
		viol := func(rule, sig, format string, args ...any) { simrt.Violate("C04", rule, sig, format, args...) }
		// (a) cipher pair under a failing entropy source
		key := newKey(tape)
		rnd := simrand.New(tape)
		if tape.Coin(simrt.Cfg, 1, 2) {
			rnd.ShortDen, rnd.ErrDen = 3, 6
		}
		cli, srv := crypto.NewClientCipher(rnd), crypto.NewServerCipher(rnd)
		for n := tape.Range(simrt.Wl, 1, 6); n > 0; n-- {
			payload := make([]byte, pickLen(tape))
			tape.Fill(simrt.Wl, payload)
			d := crypto.EncryptedMessageData{Salt: int64(tape.Uint64(simrt.Wl)), SessionID: int64(tape.Uint64(simrt.Wl)), MessageID: int64(tape.Uint64(simrt.Wl)), SeqNo: int32(tape.Choose(simrt.Wl, 1<<20)),
				MessageDataLen: int32(len(payload)), MessageDataWithPadding: payload}
			from, to, side := cli, srv, "client->server"
			if tape.Coin(simrt.Wl, 1, 2) {
				from, to, side = srv, cli, "server->client"
			}
			var b bin.Buffer
			b.Buf = append(b.Buf, 0xAA, 0xBB) // stale content must not leak into the output
			err := from.Encrypt(key, d, &b)
			simrt.Ev("encrypt", "%s len=%d err=%v", side, len(payload), err)
			if err != nil {
				if !errors.Is(err, simrand.ErrEntropy) {
					viol("C04.encrypt-error", "encrypt-error", "%s: Encrypt of %d bytes failed: %v", side, len(payload), err)
				}
				continue
			}
			if (len(b.Buf)-24)%16 != 0 {
				viol("C04.body-length", "body-length", "%s: encrypted body of %d bytes is not a multiple of 16", side, len(b.Buf)-24)
			}
			got, err := to.DecryptFromBuffer(key, &bin.Buffer{Buf: append([]byte(nil), b.Buf...)})
			if err != nil {
				viol("C04.round-trip", "round-trip error", "%s: message of %d bytes does not decrypt on the other side: %v", side, len(payload), err)
				continue
			}
			if got.Salt != d.Salt || got.SessionID != d.SessionID || got.MessageID != d.MessageID || got.SeqNo != d.SeqNo || string(got.Data()) != string(payload) {
				viol("C04.round-trip", "round-trip fields", "%s: decrypted fields differ from what was encrypted (payload %d bytes)", side, len(payload))
			}
			if pad := len(got.MessageDataWithPadding) - int(got.MessageDataLen); pad < 12 || pad > 1024 {
				viol("C04.padding", "padding", "%s: padding of %d bytes (payload %d)", side, pad, len(payload))
			}
		}
		// (b) connection level, with and without the gzip path
		thr := simrt.Pick(tape, simrt.Cfg, 0, -1, 64, 1024)
		fx := newFixture(tape, func(o *mtproto.Options) { o.CompressThreshold = thr })
		want := map[int64]blobReq{}
		fx.srv.onMsg = func(m *clientMsg) {
			if pad := m.padding; pad < 12 || pad > 1024 {
				viol("C04.padding", "padding conn", "client frame (msg %d, %d payload bytes) carries %d bytes of padding", m.msgID, len(m.body), pad)
			}
			if m.encLen%16 != 0 {
				viol("C04.body-length", "body-length conn", "client frame body of %d bytes is not a multiple of 16", m.encLen)
			}
			body := m.body
			if m.typeID == proto.GZIPTypeID {
				var g proto.GZIP
				if err := g.Decode(&bin.Buffer{Buf: body}); err != nil {
					viol("C04.gzip", "gzip", "client sent a gzip_packed body the server cannot unpack: %v", err)
					return
				}
				body = g.Data
				simrt.Probe("client-gzip-path")
			}
			if len(body) >= 12 && binary.LittleEndian.Uint32(body) == 0x5eed0003 {
				tag := int64(binary.LittleEndian.Uint64(body[4:]))
				r := want[tag]
				if string(body) != string(enc(r)) {
					viol("C04.round-trip", "round-trip conn", "request %d (%d words) arrived at the server with a different body (%d bytes)", tag, r.n, len(body))
				}
				// answer with a body of a drawn size; the client's decoder checks it
				n := pickLen(tape) / 4
				var rb bin.Buffer
				rb.PutID(0x5eed0004)
				rb.PutLong(tag)
				rb.PutInt(n)
				for i := 0; i < n; i++ {
					rb.PutInt32(int32(tag)*3 + int32(i))
				}
				res := fx.srv.result(m.msgID, rb.Buf)
				if tape.Coin(simrt.Wl, 1, 3) {
					res = fx.srv.result(m.msgID, enc(proto.GZIP{Data: rb.Buf}))
				}
				fx.srv.send(res, sendOpt{content: true, tag: fmt.Sprintf("result %d", tag), noFaults: true})
			}
		}
		ctx, cancel := context.WithCancel(context.Background())
		defer cancel()
		done := fx.runConn(ctx, func(ctx context.Context) error {
			calls := tape.Range(simrt.Wl, 1, 4)
			errs := make(chan error, calls)
			for i := 0; i < calls; i++ {
				r := blobReq{tag: int64(100 + i), n: pickLen(tape) / 4}
				if r.n > 40000 {
					r.n = 40000
				}
				want[r.tag] = r
				simrt.Go(fmt.Sprintf("invoke%d", i), func() {
					cctx, cc := context.WithTimeout(ctx, 20*time.Second)
					defer cc()
					var out blobResp
					err := fx.conn.Invoke(cctx, r, &out)
					if err == nil && (out.tag != r.tag || !out.ok) {
						viol("C04.round-trip", "round-trip result", "result of request %d decoded as tag=%d ok=%v", r.tag, out.tag, out.ok)
					}
					simrt.Send(0, errs, err)
				})
			}
			for i := 0; i < calls; i++ {
				if err, _ := simrt.Recv(0, errs); err != nil {
					viol("C04.invoke-failed", "invoke-failed", "invoke over an honest link failed: %v", err)
				}
			}
			return nil
		})
		simrt.Recv(0, done)
	})
}

type blobResp struct {
	tag int64
	ok  bool
}

func (r *blobResp) Decode(b *bin.Buffer) error {
	if err := b.ConsumeID(0x5eed0004); err != nil {
		return err
	}
	tag, err := b.Long()
	if err != nil {
		return err
	}
	n, err := b.Int()
	if err != nil {
		return err
	}
	r.tag, r.ok = tag, true
	for i := 0; i < n; i++ {
		v, err := b.Int32()
		if err != nil || v != int32(tag)*3+int32(i) {
			r.ok = false
			return err
		}
	}
	return nil
}

// ---- C05 -------------------------------------------------------------------------------

// marker notification: unknown constructor + marker, reaches Handler.OnMessage
func markerBody(marker int64, extraWords int) []byte {
	var b bin.Buffer
	b.PutID(0x5eed1000)
	b.PutLong(marker)
	for i := 0; i < extraWords; i++ {
		b.PutInt32(int32(marker) + int32(i))
	}
	return b.Buf
}

func markerOf(p []byte) (int64, bool) {
	if len(p) >= 12 && binary.LittleEndian.Uint32(p) == 0x5eed1000 {
		return int64(binary.LittleEndian.Uint64(p[4:])), true
	}
	return 0, false
}

func runC05(t *testing.T, tape *simrt.Tape, env dst.Env) *simrt.Outcome {
	return simrt.Run(t, tape, simrt.Options{Policy: -1}, func(s *simrt.Sim) {
		viol := func(rule, sig, format string, args ...any) { simrt.Violate("C05", rule, sig, format, args...) }
		fx := newFixture(tape, nil)
		otherKey := newKey(tape)
		forbidden := map[int64]string{} // markers / result values that only tampered frames carried
		var clientFrames [][]byte
		acked := map[int64]bool{}
		pendingIDs := map[int64]int64{} // tag -> msg id
		fx.srv.onMsg = func(m *clientMsg) {
			clientFrames = append(clientFrames, m.raw)
			if tag, ok := reqTag(m.body); ok {
				pendingIDs[tag] = m.msgID
			}
			if m.typeID == mt.MsgsAckTypeID {
				var a mt.MsgsAck
				if a.Decode(&bin.Buffer{Buf: m.body}) == nil {
					for _, id := range a.MsgIDs {
						acked[id] = true
					}
				}
			}
		}
		fx.h.onMsg = func(p []byte) {
			if mk, ok := markerOf(p); ok {
				if how, bad := forbidden[mk]; bad {
					viol("C05.accepted", "accepted "+how, "a message that reached the client only in tampered form (%s) was delivered to the handler (marker %d)", how, mk)
				}
			} else if len(p) >= 4 {
				// anything else the server never sent in clear form: e.g. a reflected client message
				viol("C05.accepted", "accepted foreign", "handler received a message the server never sent (constructor %#x): a reflected or foreign ciphertext was accepted", binary.LittleEndian.Uint32(p))
			}
		}
		tamper := func(valid []byte, kind int) ([]byte, string) {
			f := append([]byte(nil), valid...)
			switch kind {
			case 0:
				i := tape.Choose(simrt.Fault, 8)
				f[i] ^= 1 << tape.Choose(simrt.Fault, 8)
				return f, "bit flip in auth_key_id"
			case 1:
				i := 8 + tape.Choose(simrt.Fault, 16)
				f[i] ^= 1 << tape.Choose(simrt.Fault, 8)
				return f, "bit flip in msg_key"
			case 2:
				i := 24 + tape.Choose(simrt.Fault, len(f)-24)
				f[i] ^= 1 << tape.Choose(simrt.Fault, 8)
				return f, "bit flip in body"
			case 3:
				k := 1 + tape.Choose(simrt.Fault, 15)
				return f[:len(f)-k], "truncated bytes"
			case 4:
				k := 16 * (1 + tape.Choose(simrt.Fault, (len(f)-24)/16))
				if k >= len(f)-24 {
					k = len(f) - 24 - 16
				}
				if k <= 0 {
					return f[:len(f)-4], "truncated bytes"
				}
				return f[:len(f)-k], "truncated blocks"
			case 5:
				// whole blocks, or a few word-aligned / odd bytes
				extra := make([]byte, simrt.Pick(tape, simrt.Fault, 16, 32, 48, 4, 8, 12, 1+tape.Choose(simrt.Fault, 15)))
				tape.Fill(simrt.Fault, extra)
				return append(f, extra...), "extended"
			default:
				// swap two 16-byte body blocks
				blocks := (len(f) - 24) / 16
				if blocks < 2 {
					f[24] ^= 0x80
					return f, "bit flip in body"
				}
				a, b := tape.Choose(simrt.Fault, blocks), tape.Choose(simrt.Fault, blocks)
				if a == b {
					b = (a + 1) % blocks
				}
				x, y := f[24+16*a:24+16*a+16], f[24+16*b:24+16*b+16]
				for i := range x {
					x[i], y[i] = y[i], x[i]
				}
				return f, "blocks swapped"
			}
		}
		// cipher level: Decrypt must refuse and return no data
		cliCipher := crypto.NewClientCipher(simrand.New(tape))
		check := func(f []byte, how string) {
			d, err := cliCipher.DecryptFromBuffer(fx.key, &bin.Buffer{Buf: append([]byte(nil), f...)})
			if err == nil || d != nil {
				viol("C05.decrypt-accepted", "decrypt-accepted "+how, "DecryptFromBuffer accepted a ciphertext with %s (err=%v, data returned=%v)", how, err, d != nil)
			}
			// the other public entry point: an already framed message
			var em crypto.EncryptedMessage
			if em.Decode(&bin.Buffer{Buf: append([]byte(nil), f...)}) == nil {
				if d2, err2 := cliCipher.Decrypt(fx.key, &em); err2 == nil || d2 != nil {
					viol("C05.decrypt-accepted", "decrypt-accepted (Decrypt) "+how, "Cipher.Decrypt accepted a message with %s (err=%v, data returned=%v)", how, err2, d2 != nil)
				}
			}
		}
		ctx, cancel := context.WithCancel(context.Background())
		defer cancel()
		closedOnTamper := false
		done := fx.runConn(ctx, func(ctx context.Context) error {
			// one pending call so that tampered results have something to hit
			resCh := make(chan error, 1)
			var out tagResp
			simrt.Go("invoke", func() {
				cctx, cc := context.WithTimeout(ctx, 30*time.Second)
				defer cc()
				simrt.Send(0, resCh, fx.conn.Invoke(cctx, tagReq{7}, &out))
			})
			simrt.WaitUntil(10*time.Millisecond, time.Second, func() bool { return pendingIDs[7] != 0 })
			n := tape.Range(simrt.Wl, 2, 8)
			for i := 0; i < n; i++ {
				marker := int64(1000 + i)
				kind := tape.Choose(simrt.Fault, 11)
				var f []byte
				how := ""
				switch {
				case kind <= 6:
					var body []byte
					if tape.Coin(simrt.Wl, 1, 3) && pendingIDs[7] != 0 {
						body = fx.srv.result(pendingIDs[7], respBody(marker)) // a result only the tampered frame carries
					} else {
						body = markerBody(marker, tape.Choose(simrt.Wl, 40))
					}
					valid, _ := fx.srv.encrypt(body, sendOpt{padding: -1, content: true})
					f, how = tamper(valid.data, kind)
				case kind == 7 && len(clientFrames) > 0:
					f, how = clientFrames[tape.Choose(simrt.Fault, len(clientFrames))], "reflection of a client message"
				case kind == 8:
					fr, _ := fx.srv.encrypt(markerBody(marker, 2), sendOpt{padding: -1, key: &otherKey, content: true})
					f, how = fr.data, "another auth key"
				case kind == 9:
					// another key, but advertising our auth_key_id
					fr, _ := fx.srv.encrypt(markerBody(marker, 2), sendOpt{padding: -1, key: &otherKey, content: true})
					f = fr.data
					copy(f[:8], fx.key.ID[:])
					how = "another auth key under our key id"
				default:
					// a message encrypted with the client-side direction (as the client itself would)
					var b bin.Buffer
					_ = cliCipher.Encrypt(fx.key, crypto.EncryptedMessageData{Salt: 1, SessionID: fx.srv.session, MessageID: fx.srv.newID(1), SeqNo: 1, MessageDataLen: int32(len(markerBody(marker, 2))), MessageDataWithPadding: markerBody(marker, 2)}, &b)
					f, how = b.Buf, "client-side encryption direction"
				}
				forbidden[marker] = how
				simrt.FaultFired("tamper", "%s", how)
				check(f, how)
				fx.srv.deliver(frame{data: f, tag: "tampered: " + how}, true)
				simrt.Sleep(0, time.Duration(tape.Choose(simrt.Wl, 3))*50*time.Millisecond)
			}
			// honest traffic still works afterwards
			okMarker := int64(5000)
			fx.srv.send(markerBody(okMarker, 1), sendOpt{content: true, tag: "honest notification", noFaults: true})
			fx.srv.send(fx.srv.result(pendingIDs[7], respBody(7777)), sendOpt{content: true, tag: "honest result", noFaults: true})
			err, _ := simrt.Recv(0, resCh)
			if fx.ended || ctx.Err() != nil {
				// a frame that fails decryption is fatal for the connection
				// (readLoop "halting"): refusing everything afterwards is a
				// legal way of rejecting, the statement asks no more
				simrt.Probe("C05.conn-closed-on-tamper")
				closedOnTamper = true
				return nil
			}
			if err != nil {
				viol("C05.honest-failed", "honest-failed", "the honest result after the tampered frames was not accepted: %v", err)
			} else if len(out.got) != 1 || out.got[0] != 7777 {
				if len(out.got) > 0 && forbidden[out.got[0]] != "" {
					viol("C05.accepted", "accepted result "+forbidden[out.got[0]], "the pending call completed with a value that only a tampered frame (%s) carried", forbidden[out.got[0]])
				} else {
					viol("C05.honest-failed", "honest-wrong", "the pending call decoded %v", out.got)
				}
			}
			simrt.Sleep(0, 3*time.Second) // let acks flush
			return nil
		})
		simrt.Recv(0, done)
		for _, p := range fx.h.msgs {
			if mk, ok := markerOf(p); ok && mk == 5000 {
				return
			}
		}
		if !fx.userDone || closedOnTamper {
			return
		}
		viol("C05.honest-failed", "honest-notification-lost", "the honest notification sent after the tampered frames never reached the handler")
	})
}

// ---- C07 -------------------------------------------------------------------------------

func runC07(t *testing.T, tape *simrt.Tape, env dst.Env) *simrt.Outcome {
	if tape.Coin(simrt.Cfg, 1, 4) {
		return runIDBuf(t, tape, env)
	}
	return simrt.Run(t, tape, simrt.Options{Policy: -1}, func(s *simrt.Sim) {
		viol := func(rule, sig, format string, args ...any) { simrt.Violate("C07", rule, sig, format, args...) }
		fx := newFixture(tape, nil)
		fx.clk.off = time.Duration(tape.Choose(simrt.Clock, 7)-3) * time.Hour // client clock skew
		got := map[int64]int{}
		fx.h.onMsg = func(p []byte) {
			if mk, ok := markerOf(p); ok {
				got[mk]++
			}
		}
		type sent struct {
			marker int64
			accept bool
			why    string
			frame  frame
			id     int64
			void   bool
		}
		var log []sent
		var accepted []sent // accepted originals, for replays
		ctx, cancel := context.WithCancel(context.Background())
		defer cancel()
		done := fx.runConn(ctx, func(ctx context.Context) error {
			// learn the session: the client speaks first
			var out tagResp
			simrt.Go("invoke", func() {
				cctx, cc := context.WithTimeout(ctx, time.Minute)
				defer cc()
				_ = fx.conn.Invoke(cctx, tagReq{1}, &out)
			})
			simrt.WaitUntil(10*time.Millisecond, time.Second, func() bool { return fx.srv.session != 0 })
			n := tape.Range(simrt.Wl, 3, 14)
			for i := 0; i < n; i++ {
				if fx.ended || ctx.Err() != nil {
					// a frame failing the cipher-level checks is fatal for the
					// connection; nothing is expected of a dead connection
					simrt.Probe("C07.conn-closed-on-invalid")
					break
				}
				marker := int64(100 + i)
				o := sendOpt{padding: -1, content: tape.Coin(simrt.Wl, 1, 2), idType: simrt.Pick(tape, simrt.Wl, int64(1), int64(3)), noFaults: true}
				accept, why := true, "valid"
				extra := 0
				now := fx.clk.Now()
				mkID := func(at time.Time, typ int64) int64 {
					return (at.Unix() << 32) | int64(at.Nanosecond()&^3) | typ
				}
				switch tape.Choose(simrt.Fault, 12) {
				case 0:
					o.session = fx.srv.session + 1 + int64(tape.Choose(simrt.Fault, 5))
					accept, why = false, "other session id"
				case 1:
					o.id = mkID(now, 0)
					accept, why = false, "client-typed message id"
				case 2:
					o.id = mkID(now, 2)
					accept, why = false, "message id of unknown type"
				case 3:
					// (not exactly 300/30 s: the type bits and the delivery time put the
					// exact boundary on either side)
					age := simrt.Pick(tape, simrt.Fault, 1000, 299000, 300500, 301000, 600000, 86400000) // ms
					o.id = mkID(now.Add(-time.Duration(age)*time.Millisecond), o.idType)
					accept, why = age <= 300000, fmt.Sprintf("created %d ms in the past", age)
				case 4:
					ahead := simrt.Pick(tape, simrt.Fault, 1000, 29000, 30500, 31000, 3600000) // ms
					o.id = mkID(now.Add(time.Duration(ahead)*time.Millisecond), o.idType)
					accept, why = ahead <= 30000, fmt.Sprintf("created %d ms in the future", ahead)
				case 5, 6:
					if len(accepted) > 0 {
						// replay of an accepted frame: one of the last 8 accepted
						k := len(accepted) - 1 - tape.Choose(simrt.Fault, min(8, len(accepted)))
						orig := accepted[k]
						simrt.FaultFired("replay", "marker %d (accepted %d messages ago)", orig.marker, len(accepted)-1-k)
						fx.srv.deliver(frame{data: orig.frame.data, tag: fmt.Sprintf("replay of marker %d", orig.marker)}, true)
						log = append(log, sent{marker: orig.marker, accept: false, why: fmt.Sprintf("replay of one of the last 8 accepted messages (%d accepted since)", len(accepted)-1-k)})
						simrt.Sleep(0, 20*time.Millisecond)
						continue
					}
				case 7:
					pad := simrt.Pick(tape, simrt.Fault, 0, 4, 8, 12, 16, 1024, 1040, 2048)
					// block alignment: 32 + len + pad = 0 mod 16; markerBody is 12 + 4*extra bytes
					for (32+12+4*extra+pad)%16 != 0 {
						extra++
					}
					o.padding = pad
					accept, why = pad >= 12 && pad <= 1024, fmt.Sprintf("%d bytes of padding", pad)
				case 8:
					o.padding = 16
					for (32+12+4*extra+16)%16 != 0 {
						extra++
					}
					o.rawLen = 12 + 4*extra - 1 - tape.Choose(simrt.Fault, 3)
					accept, why = false, "payload length not divisible by 4"
				}
				if o.id != 0 {
					// keep crafted ids unique and remember them like fresh ones
					if o.id <= fx.srv.lastID && accept {
						// an in-window id below an id already used is still a fresh id for the
						// client unless it was seen: leave it, the model only forbids replays
					}
				}
				body := markerBody(marker, extra)
				f, id := fx.srv.encrypt(body, o)
				f.tag = fmt.Sprintf("marker %d: %s", marker, why)
				if !accept {
					simrt.FaultFired("crafted-invalid", "%s", why)
				}
				fx.srv.deliver(f, true)
				log = append(log, sent{marker: marker, accept: accept, why: why, frame: f, id: id})
				// processed before the next one (the read loop handles each frame in
				// its own goroutine): wait for acceptance, or a little for a drop
				if accept {
					if !simrt.WaitUntil(5*time.Millisecond, 200*time.Millisecond, func() bool { return got[marker] > 0 }) {
						simrt.Ev("not-delivered", "marker %d", marker)
						if fx.ended || ctx.Err() != nil {
							log[len(log)-1].void = true // the connection died under it
						}
					} else {
						accepted = append(accepted, log[len(log)-1])
					}
				} else {
					simrt.Sleep(0, 20*time.Millisecond)
				}
				if tape.Coin(simrt.Clock, 1, 6) {
					// time passes
					simrt.Sleep(0, time.Duration(1+tape.Choose(simrt.Clock, 20))*time.Second)
				}
			}
			simrt.Sleep(0, 100*time.Millisecond)
			return nil
		})
		simrt.Recv(0, done)
		for _, m := range log {
			switch {
			case m.void:
			case m.accept && got[m.marker] == 0:
				viol("C07.rejected-valid", "rejected-valid "+m.why, "a fresh, in-session, correctly padded message (%s) never reached the handler", m.why)
			case !m.accept && len(m.why) > 6 && m.why[:6] == "replay" && got[m.marker] > 1:
				viol("C07.accepted-invalid", "accepted-invalid replay", "marker %d reached the handler %d times: a %s was processed again", m.marker, got[m.marker], m.why)
			case !m.accept && (len(m.why) < 6 || m.why[:6] != "replay") && got[m.marker] > 0:
				viol("C07.accepted-invalid", "accepted-invalid "+classOf(m.why), "a message with %s reached the handler", m.why)
			}
		}
	})
}

func classOf(why string) string {
	for i, c := range why {
		if c >= '0' && c <= '9' {
			// "created 301 s in the past" -> "created N s in the past"; "0 bytes of padding" -> "N bytes of padding"
			j := i
			for j < len(why) && why[j] >= '0' && why[j] <= '9' {
				j++
			}
			n := 0
			fmt.Sscan(why[i:j], &n)
			switch {
			case len(why) > j+9 && why[j:j+9] == " bytes of":
				if n < 12 {
					return "padding below 12"
				}
				return "padding above 1024"
			}
			return why[:i] + "N" + why[j:]
		}
	}
	return why
}

// runIDBuf checks proto.MessageIDBuf alone against the window rule of the
// statement, sequentially and with concurrent Consume calls.
func runIDBuf(t *testing.T, tape *simrt.Tape, env dst.Env) *simrt.Outcome {
	return simrt.Run(t, tape, simrt.Options{Policy: -1}, func(s *simrt.Sim) {
		n := tape.Range(simrt.Cfg, 1, 8)
		buf := proto.NewMessageIDBuf(n)
		// sequential reference: the last n accepted ids
		var last []int64
		model := func(id int64) bool {
			for _, x := range last {
				if x == id {
					return false
				}
			}
			if len(last) == n {
				minV := last[0]
				for _, x := range last {
					if x < minV {
						minV = x
					}
				}
				if id < minV {
					return false
				}
			}
			last = append(last, id)
			if len(last) > n {
				// forget the lowest of the remembered ids
				mi := 0
				for i, x := range last {
					if x < last[mi] {
						mi = i
					}
				}
				last = append(last[:mi], last[mi+1:]...)
			}
			return true
		}
		ops := tape.Range(simrt.Wl, 4, 40)
		for i := 0; i < ops; i++ {
			id := int64(4*(1+tape.Choose(simrt.Wl, 3*n+4)) + 1)
			want := model(id)
			got := buf.Consume(id)
			simrt.Ev("consume", "id=%d got=%v want=%v remembered=%v", id, got, want, last)
			if got != want {
				rule := "idbuf-rejected-fresh"
				if got {
					rule = "idbuf-accepted-replay"
				}
				simrt.Violate("C07", "C07."+rule, rule, "MessageIDBuf(%d).Consume(%d) = %v; by the window rule (reject ids equal to one of the last %d accepted, or lower than all of them once %d are stored) it must be %v (remembered after the call: %v)", n, id, got, n, n, want, last)
				return
			}
		}
		// The read loop hands every frame to its own task: deliveries of one
		// fresh id may run concurrently, and exactly one of them is the original.
		fresh := int64(4*(3*n+50) + 1)
		k := 2 + tape.Choose(simrt.Wl, 2)
		res := make(chan bool, k)
		for j := 0; j < k; j++ {
			simrt.Go("consumer", func() { simrt.Send(0, res, buf.Consume(fresh)) })
		}
		accepted := 0
		for j := 0; j < k; j++ {
			if v, _ := simrt.Recv(0, res); v {
				accepted++
			}
		}
		if accepted != 1 {
			simrt.Violate("C07", "C07.idbuf-accepted-replay", "idbuf-accepted-replay concurrent", "%d concurrent Consume(%d) calls of a fresh id: %d were accepted (want exactly 1)", k, fresh, accepted)
		}
	})
}

// ---- C08 -------------------------------------------------------------------------------

func runC08(t *testing.T, tape *simrt.Tape, env dst.Env) *simrt.Outcome {
	if tape.Coin(simrt.Cfg, 1, 2) {
		return runIDGen(t, tape, env)
	}
	return simrt.Run(t, tape, simrt.Options{Policy: -1}, func(s *simrt.Sim) {
		viol := func(rule, sig, format string, args ...any) { simrt.Violate("C08", rule, sig, format, args...) }
		fx := newFixture(tape, func(o *mtproto.Options) {
			o.AckBatchSize = 1 + tape.Choose(simrt.Cfg, 3)
			o.AckInterval = time.Duration(1+tape.Choose(simrt.Cfg, 3)) * 500 * time.Millisecond
			o.PingInterval = time.Duration(1+tape.Choose(simrt.Cfg, 3)) * 700 * time.Millisecond
		})
		fx.srv.onMsg = func(m *clientMsg) {
			switch {
			case m.typeID == mt.PingDelayDisconnectRequestTypeID:
				var p mt.PingDelayDisconnectRequest
				if p.Decode(&bin.Buffer{Buf: m.body}) == nil {
					fx.srv.send(enc(&mt.Pong{MsgID: m.msgID, PingID: p.PingID}), sendOpt{tag: "pong", noFaults: true})
				}
			case m.typeID == mt.PingRequestTypeID:
				var p mt.PingRequest
				if p.Decode(&bin.Buffer{Buf: m.body}) == nil {
					fx.srv.send(enc(&mt.Pong{MsgID: m.msgID, PingID: p.PingID}), sendOpt{tag: "pong", noFaults: true})
				}
			default:
				if tag, ok := reqTag(m.body); ok {
					// content answer: makes the client acknowledge
					d := time.Duration(tape.Choose(simrt.Net, 3)) * 100 * time.Millisecond
					id := m.msgID
					simrt.Go("answer", func() {
						simrt.Sleep(0, d)
						fx.srv.send(fx.srv.result(id, respBody(tag)), sendOpt{content: true, tag: fmt.Sprintf("result %d", tag), noFaults: true})
					})
				}
			}
		}
		ctx, cancel := context.WithCancel(context.Background())
		defer cancel()
		done := fx.runConn(ctx, func(ctx context.Context) error {
			callers := tape.Range(simrt.Wl, 1, 4)
			fin := make(chan struct{}, callers+1)
			for i := 0; i < callers; i++ {
				i := i
				simrt.Go(fmt.Sprintf("caller%d", i), func() {
					defer func() { simrt.Send(0, fin, struct{}{}) }()
					for k := tape.Range(simrt.Wl, 1, 3); k > 0; k-- {
						cctx, cc := context.WithTimeout(ctx, 10*time.Second)
						var out tagResp
						_ = fx.conn.Invoke(cctx, tagReq{int64(i*10 + k)}, &out)
						cc()
						simrt.Sleep(0, time.Duration(tape.Choose(simrt.Wl, 3))*200*time.Millisecond)
					}
				})
			}
			simrt.Go("pinger", func() {
				defer func() { simrt.Send(0, fin, struct{}{}) }()
				for k := tape.Choose(simrt.Wl, 3); k > 0; k-- {
					cctx, cc := context.WithTimeout(ctx, 2*time.Second)
					_ = fx.conn.Ping(cctx)
					cc()
				}
			})
			for i := 0; i < callers+1; i++ {
				simrt.Recv(0, fin)
			}
			simrt.Sleep(0, 2*time.Second)
			return nil
		})
		simrt.Recv(0, done)
		// oracle over the tap
		msgs := append([]*clientMsg(nil), fx.srv.msgs...)
		seenRaw := map[int64][]byte{}
		var uniq []*clientMsg
		for _, m := range msgs {
			if m.msgID%4 != 0 {
				viol("C08.id-type", "id-type", "client message id %d is not divisible by 4", m.msgID)
			}
			if prev, ok := seenRaw[m.msgID]; ok {
				if string(prev) != string(m.body) {
					viol("C08.duplicate-id", "duplicate-id", "message id %d used for two different messages", m.msgID)
				}
				continue // a retransmission
			}
			seenRaw[m.msgID] = m.body
			uniq = append(uniq, m)
		}
		sort.Slice(uniq, func(i, j int) bool { return uniq[i].msgID < uniq[j].msgID })
		c := int32(0)
		for _, m := range uniq {
			content := !(m.typeID == mt.PingRequestTypeID || m.typeID == mt.PingDelayDisconnectRequestTypeID || m.typeID == mt.MsgsAckTypeID || m.typeID == mt.GetFutureSaltsRequestTypeID || m.typeID == mt.HTTPWaitRequestTypeID)
			want := 2 * c
			if content {
				want = 2*c + 1
				c++
			}
			if m.seqNo != want {
				kind := "service"
				if content {
					kind = "content"
				}
				viol("C08.seqno", "seqno "+kind, "in message-id order, %s message %d (constructor %#x) has seq_no %d; with %d earlier content messages it must be %d", kind, m.msgID, m.typeID, m.seqNo, want/2, want)
				return
			}
		}
	})
}

// runIDGen drives proto.MessageIDGen directly with a faulty clock and
// concurrent callers.
func runIDGen(t *testing.T, tape *simrt.Tape, env dst.Env) *simrt.Outcome {
	return simrt.Run(t, tape, simrt.Options{Policy: -1}, func(s *simrt.Sim) {
		viol := func(rule, sig, format string, args ...any) { simrt.Violate("C08", rule, sig, format, args...) }
		base := time.Unix(1_700_000_000+int64(tape.Choose(simrt.Clock, 1000)), int64(tape.Choose(simrt.Clock, 1_000_000_000)))
		cur := base
		mode := tape.Choose(simrt.Clock, 5)
		type reading struct {
			at   time.Time
			task int
		}
		var readings []reading
		now := func() time.Time {
			// the clock is read inside the generator's lock: the order of these
			// calls is the order in which ids are generated
			switch mode {
			case 0: // frozen
			case 1: // crawls by 1-3 ns
				cur = cur.Add(time.Duration(1 + tape.Choose(simrt.Clock, 3)))
			case 2: // 0-9 ns
				cur = cur.Add(time.Duration(tape.Choose(simrt.Clock, 10)))
			case 3: // realistic: micro- to milliseconds, sometimes coarse ticks
				cur = cur.Add(simrt.Pick(tape, simrt.Clock, time.Microsecond, 15*time.Microsecond, time.Millisecond, 0, 0, 16*time.Millisecond))
			default: // jumps backwards now and then
				if tape.Coin(simrt.Clock, 1, 5) {
					cur = cur.Add(-time.Duration(1+tape.Choose(simrt.Clock, 5000)) * time.Millisecond)
					simrt.FaultFired("clock-backwards", "")
				} else {
					cur = cur.Add(time.Duration(tape.Choose(simrt.Clock, 2000)) * time.Microsecond)
				}
			}
			id, _ := simrt.CurrentTask()
			readings = append(readings, reading{cur, id})
			return cur
		}
		gen := proto.NewMessageIDGen(now)
		type made struct {
			idx int
			id  int64
		}
		var ids []made
		callers := tape.Range(simrt.Cfg, 1, 4)
		fin := make(chan struct{}, callers)
		for c := 0; c < callers; c++ {
			simrt.Go(fmt.Sprintf("gen%d", c), func() {
				defer func() { simrt.Send(0, fin, struct{}{}) }()
				me, _ := simrt.CurrentTask()
				for k := tape.Range(simrt.Wl, 2, 12); k > 0; k-- {
					id := gen.New(proto.MessageFromClient)
					// my reading is the last one taken by this task
					idx := -1
					for i := len(readings) - 1; i >= 0; i-- {
						if readings[i].task == me {
							idx = i
							break
						}
					}
					ids = append(ids, made{idx, id})
					simrt.Yield(0)
				}
			})
		}
		for c := 0; c < callers; c++ {
			simrt.Recv(0, fin)
		}
		sort.Slice(ids, func(i, j int) bool { return ids[i].idx < ids[j].idx })
		for k, m := range ids {
			if m.id%4 != 0 {
				viol("C08.id-type", "id-type", "generated id %d is not divisible by 4", m.id)
			}
			if k == 0 {
				continue
			}
			prev := ids[k-1]
			if m.id <= prev.id {
				step := readings[m.idx].at.Sub(readings[prev.idx].at)
				viol("C08.not-increasing", fmt.Sprintf("not-increasing clock-step=%s", stepClass(step)), "id #%d = %d is not greater than the previous id %d (clock readings %v apart, mode %d)", k, m.id, prev.id, step, mode)
				return
			}
			if proto.MessageID(m.id).Time().Before(proto.MessageID(prev.id).Time()) {
				viol("C08.time-decreasing", "time-decreasing", "id #%d encodes an earlier time than its predecessor", k)
			}
		}
		// closeness to the clock on monotone clocks
		if mode != 4 {
			for k, m := range ids {
				r := readings[m.idx].at
				enc := proto.MessageID(m.id).Time()
				lo := r.Add(-4 * time.Nanosecond)
				hi := r
				if k > 0 {
					if p := proto.MessageID(ids[k-1].id).Time(); p.After(hi) {
						hi = p
					}
				}
				hi = hi.Add(time.Microsecond)
				if enc.Before(lo) || enc.After(hi) {
					viol("C08.far-from-clock", "far-from-clock", "id #%d encodes %v; the clock read %v", k, enc, r)
					return
				}
			}
		}
	})
}

func stepClass(d time.Duration) string {
	switch {
	case d < 0:
		return "backwards"
	case d == 0:
		return "0"
	case d < 4:
		return "1-3ns"
	case d < 10:
		return "4-9ns"
	default:
		return ">=10ns"
	}
}
