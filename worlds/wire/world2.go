package wire

import (
	"context"
	"fmt"
	"os"
	"path/filepath"
	"sort"
	"sync"
	"testing"
	"time"

	"github.com/gotd/td/bin"
	"github.com/gotd/td/mt"
	"github.com/gotd/td/mtproto"
	"github.com/gotd/td/proto"
	"github.com/gotd/td/tgerr"

	"verif/dst"
	"verif/simrt"
)

// ---- C23 -------------------------------------------------------------------------------

var (
	corpusOnce sync.Once
	corpus     [][]byte
)

// loadCorpus reads /repo/_fuzz/handle_message/corpus once per process (sorted).
func loadCorpus() [][]byte {
	corpusOnce.Do(func() {
		dir := "/repo/_fuzz/handle_message/corpus"
		ents, err := os.ReadDir(dir)
		if err != nil {
			return
		}
		var names []string
		for _, e := range ents {
			if !e.IsDir() {
				names = append(names, e.Name())
			}
		}
		sort.Strings(names)
		for _, n := range names {
			if b, err := os.ReadFile(filepath.Join(dir, n)); err == nil && len(b) > 0 && len(b)%4 == 0 {
				corpus = append(corpus, b)
			}
		}
	})
	return corpus
}

func runC23(t *testing.T, tape *simrt.Tape, env dst.Env) *simrt.Outcome {
	cp := loadCorpus()
	return simrt.Run(t, tape, simrt.Options{Policy: -1}, func(s *simrt.Sim) {
		viol := func(rule, sig, format string, args ...any) { simrt.Violate("C23", rule, sig, format, args...) }
		fx := newFixture(tape, func(o *mtproto.Options) { o.RetryInterval = 30 * time.Second })
		ids := map[int64]int64{}       // tag -> msg id
		tags := map[int64]int64{}      // msg id -> tag
		sentFor := map[int64][]int64{} // request msg id -> result values addressed to it
		var pingIDs []int64            // ids of the pings the client has pending
		fx.srv.onMsg = func(m *clientMsg) {
			if tag, ok := reqTag(m.body); ok {
				ids[tag], tags[m.msgID] = m.msgID, tag
			}
			if m.typeID == mt.PingRequestTypeID {
				var p mt.PingRequest
				if p.Decode(&bin.Buffer{Buf: m.body}) == nil {
					pingIDs = append(pingIDs, p.PingID)
				}
			}
		}
		ctx, cancel := context.WithCancel(context.Background())
		defer cancel()
		done := fx.runConn(ctx, func(ctx context.Context) error {
			calls := tape.Choose(simrt.Wl, 5)
			type res struct {
				tag int64
				out *tagResp
				err error
			}
			fin := make(chan res, calls)
			for i := 0; i < calls; i++ {
				tag := int64(10 + i)
				simrt.Go(fmt.Sprintf("invoke%d", tag), func() {
					cctx, cc := context.WithTimeout(ctx, 8*time.Second)
					defer cc()
					out := &tagResp{}
					err := fx.conn.Invoke(cctx, tagReq{tag}, out)
					simrt.Send(0, fin, res{tag, out, err})
				})
			}
			// pending pings: pongs (matching, duplicated, inside containers) then
			// have a waiter to hit
			pings := tape.Choose(simrt.Wl, 3)
			for i := 0; i < pings; i++ {
				simrt.Go("ping", func() {
					cctx, cc := context.WithTimeout(ctx, 8*time.Second)
					defer cc()
					_ = fx.conn.Ping(cctx)
				})
			}
			simrt.WaitUntil(10*time.Millisecond, time.Second, func() bool {
				return (len(ids) == calls && fx.srv.session != 0 || calls == 0) && len(pingIDs) >= pings
			})
			if calls == 0 {
				// the server needs the session id: make the client speak
				cctx, cc := context.WithTimeout(ctx, time.Second)
				_ = fx.conn.Ping(cctx)
				cc()
			}
			var pend []int64
			for _, id := range ids {
				pend = append(pend, id)
			}
			sort.Slice(pend, func(i, j int) bool { return pend[i] < pend[j] })
			value := int64(500)
			resultFor := func(id int64) []byte {
				value++
				sentFor[id] = append(sentFor[id], value)
				return fx.srv.result(id, respBody(value))
			}
			anyBody := func(depth int) []byte { return nil }
			anyBody = func(depth int) []byte {
				k := tape.Choose(simrt.Wl, 16)
				if depth > 2 && k >= 9 && k <= 11 {
					k = 0
				}
				switch k {
				case 0, 1, 2:
					if len(cp) > 0 {
						b := append([]byte(nil), cp[tape.Choose(simrt.Wl, len(cp))]...)
						if k == 2 && len(b) > 0 {
							// mutation of a corpus entry
							for n := 1 + tape.Choose(simrt.Fault, 3); n > 0; n-- {
								b[tape.Choose(simrt.Fault, len(b))] ^= byte(1 << tape.Choose(simrt.Fault, 8))
							}
						}
						return b
					}
					return markerBody(1, 1)
				case 3:
					if len(pend) > 0 {
						return resultFor(pend[tape.Choose(simrt.Wl, len(pend))])
					}
					return resultFor(4242)
				case 4:
					return resultFor(int64(tape.Uint64(simrt.Wl))) // unknown request id
				case 5:
					if len(pend) > 0 {
						id := pend[tape.Choose(simrt.Wl, len(pend))]
						return fx.srv.rpcError(id, 400+tape.Choose(simrt.Wl, 100), simrt.Pick(tape, simrt.Wl, "FLOOD_WAIT_3", "SOME_ERROR", "X_5_Y", ""))
					}
					return fx.srv.rpcError(1, 500, "NOPE")
				case 6:
					var a mt.MsgsAck
					for n := tape.Choose(simrt.Wl, 4); n > 0; n-- {
						if len(pend) > 0 && tape.Coin(simrt.Wl, 1, 2) {
							a.MsgIDs = append(a.MsgIDs, pend[tape.Choose(simrt.Wl, len(pend))])
						} else {
							a.MsgIDs = append(a.MsgIDs, int64(tape.Uint64(simrt.Wl)))
						}
					}
					return enc(&a)
				case 7:
					if len(pingIDs) > 0 && tape.Coin(simrt.Wl, 2, 3) {
						return enc(&mt.Pong{MsgID: int64(tape.Uint64(simrt.Wl)), PingID: pingIDs[tape.Choose(simrt.Wl, len(pingIDs))]})
					}
					return enc(&mt.Pong{MsgID: int64(tape.Uint64(simrt.Wl)), PingID: int64(tape.Uint64(simrt.Wl))})
				case 8:
					switch tape.Choose(simrt.Wl, 4) {
					case 0:
						return enc(&mt.NewSessionCreated{FirstMsgID: int64(tape.Uint64(simrt.Wl)), UniqueID: 5, ServerSalt: 1})
					case 1:
						var fs mt.FutureSalts
						for n := tape.Choose(simrt.Wl, 4); n > 0; n-- {
							fs.Salts = append(fs.Salts, mt.FutureSalt{ValidSince: tape.Choose(simrt.Wl, 1<<30), ValidUntil: tape.Choose(simrt.Wl, 1<<30), Salt: 1})
						}
						return enc(&fs)
					case 2:
						return enc(&mt.BadMsgNotification{BadMsgID: int64(tape.Uint64(simrt.Wl)), ErrorCode: tape.Choose(simrt.Wl, 70)})
					default:
						return enc(&mt.MsgDetailedInfo{MsgID: 1, AnswerMsgID: 2})
					}
				case 9:
					// container (possibly nested, empty, or lying about its count)
					var b bin.Buffer
					b.PutID(proto.MessageContainerTypeID)
					n := tape.Choose(simrt.Wl, 4)
					count := n
					if tape.Coin(simrt.Fault, 1, 4) {
						count = simrt.Pick(tape, simrt.Fault, -1, 1<<30, n+1, 1<<20)
					}
					b.PutInt(count)
					for i := 0; i < n; i++ {
						inner := anyBody(depth + 1)
						b.PutLong(fx.srv.newID(1))
						b.PutInt(0)
						b.PutInt(len(inner))
						b.Put(inner)
					}
					return b.Buf
				case 10:
					inner := anyBody(depth + 1)
					return enc(proto.GZIP{Data: inner})
				case 11:
					// gzip_packed of garbage / truncated gzip
					g := enc(proto.GZIP{Data: anyBody(depth + 1)})
					if len(g) > 12 {
						g = g[:8+4*tape.Choose(simrt.Fault, (len(g)-8)/4)]
					}
					return g
				case 12:
					// rpc_result wrapping arbitrary bytes for a pending id
					if len(pend) > 0 {
						id := pend[tape.Choose(simrt.Wl, len(pend))]
						return fx.srv.result(id, anyBody(depth+1))
					}
					return fx.srv.result(7, anyBody(depth+1))
				case 13:
					p := make([]byte, 4*tape.Choose(simrt.Wl, 12))
					tape.Fill(simrt.Wl, p)
					return p
				default:
					return markerBody(int64(tape.Choose(simrt.Wl, 1000)), tape.Choose(simrt.Wl, 4))
				}
			}
			n := tape.Range(simrt.Wl, 3, 20)
			for i := 0; i < n; i++ {
				body := anyBody(0)
				if len(body)%4 != 0 {
					body = append(body, make([]byte, 4-len(body)%4)...)
				}
				simrt.FaultFired("byzantine-payload", "")
				fx.srv.send(body, sendOpt{content: tape.Coin(simrt.Wl, 1, 2), tag: fmt.Sprintf("payload %d (%d bytes, constructor %x)", i, len(body), first4(body)), noFaults: true})
				if tape.Coin(simrt.Wl, 1, 4) {
					simrt.Sleep(0, 50*time.Millisecond)
				}
			}
			// finish the pending calls honestly
			simrt.Sleep(0, 200*time.Millisecond)
			for _, id := range pend {
				fx.srv.send(resultFor(id), sendOpt{content: true, tag: "final result", noFaults: true})
			}
			for i := 0; i < calls; i++ {
				r, _ := simrt.Recv(0, fin)
				id := ids[r.tag]
				if r.err == nil {
					if len(r.out.got) != 1 {
						viol("C23.routing", "routing count", "call %d returned nil after %d result writes", r.tag, len(r.out.got))
						continue
					}
					ok := false
					for _, v := range sentFor[id] {
						if v == r.out.got[0] {
							ok = true
						}
					}
					if !ok {
						viol("C23.routing", "routing foreign", "call %d (msg id %d) completed with value %d, which the server never addressed to that message id (addressed: %v)", r.tag, id, r.out.got[0], sentFor[id])
					}
				}
			}
			return nil
		})
		simrt.Recv(0, done)
	})
}

// ---- C24 (connection level) ---------------------------------------------------------------
//
// The engine-level interleavings of C24 are world rpc's; here the same
// statement is checked where results enter: mtproto.Conn.handleResult. Every
// call is answered in one of the forms a server uses (plain, gzip-packed,
// inside a container; a value or an RPC error), mixed with duplicates and
// answers for ids nobody waits for, and must return exactly what was
// addressed to it.
func runC24(t *testing.T, tape *simrt.Tape, env dst.Env) *simrt.Outcome {
	return simrt.Run(t, tape, simrt.Options{Policy: -1}, func(s *simrt.Sim) {
		viol := func(rule, sig, format string, args ...any) { simrt.Violate("C24", rule, sig, format, args...) }
		fx := newFixture(tape, func(o *mtproto.Options) { o.RetryInterval = 30 * time.Second })
		type answer struct {
			isErr bool
			value int64
			code  int
			msg   string
			form  string
			dup   bool // a second, different result (-2) is sent for the same id
		}
		plan := map[int64]*answer{} // tag -> what the server answers
		fx.srv.onMsg = func(m *clientMsg) {
			tag, ok := reqTag(m.body)
			if !ok {
				return
			}
			a := plan[tag]
			if a == nil {
				return
			}
			body := respBody(a.value)
			if a.isErr {
				body = enc(&mt.RPCError{ErrorCode: a.code, ErrorMessage: a.msg})
			}
			if tape.Coin(simrt.Wl, 1, 2) {
				body = enc(proto.GZIP{Data: body})
				a.form += " gzip-packed"
			}
			res := fx.srv.result(m.msgID, body)
			if tape.Coin(simrt.Wl, 1, 3) {
				var b bin.Buffer
				b.PutID(proto.MessageContainerTypeID)
				b.PutInt(1)
				b.PutLong(fx.srv.newID(1))
				b.PutInt(1)
				b.PutInt(len(res))
				b.Put(res)
				res = b.Buf
				a.form += " in a container"
			}
			d := time.Duration(tape.Choose(simrt.Net, 3)) * 50 * time.Millisecond
			id := m.msgID
			simrt.Go("answer", func() {
				simrt.Sleep(0, d)
				if tape.Coin(simrt.Wl, 1, 2) {
					fx.srv.send(enc(&mt.MsgsAck{MsgIDs: []int64{id}}), sendOpt{tag: "ack", noFaults: true})
				}
				if tape.Coin(simrt.Fault, 1, 4) {
					// an answer for an id nobody waits for
					fx.srv.send(fx.srv.result(id-3600<<32, respBody(-1)), sendOpt{content: true, tag: "result for a foreign id", noFaults: true})
				}
				fx.srv.send(res, sendOpt{content: true, tag: fmt.Sprintf("answer tag %d:%s", tag, a.form), noFaults: true})
				if a.dup {
					// a second answer to the same id: each frame is handled by its own
					// task, so either of the two may be the one the call completes with
					fx.srv.send(fx.srv.result(id, respBody(-2)), sendOpt{content: true, tag: "second result for the same id", noFaults: true})
				}
			})
		}
		ctx, cancel := context.WithCancel(context.Background())
		defer cancel()
		done := fx.runConn(ctx, func(ctx context.Context) error {
			n := 1 + tape.Choose(simrt.Wl, 4)
			fin := make(chan struct{}, n)
			for i := 0; i < n; i++ {
				tag := int64(40 + i)
				a := &answer{value: 7000 + tag, dup: tape.Coin(simrt.Fault, 1, 4)}
				if tape.Coin(simrt.Wl, 1, 2) {
					a.isErr, a.code = true, simrt.Pick(tape, simrt.Wl, 400, 401, 420, 500)
					a.msg = simrt.Pick(tape, simrt.Wl, "FLOOD_WAIT_17", "PEER_ID_INVALID", "AUTH_KEY_UNREGISTERED", "X_5_Y")
					a.form = "rpc_error"
				} else {
					a.form = "result"
				}
				plan[tag] = a
				simrt.Go(fmt.Sprintf("invoke%d", tag), func() {
					defer simrt.Send(0, fin, struct{}{})
					cctx, cc := context.WithTimeout(ctx, 20*time.Second)
					defer cc()
					out := &tagResp{}
					err := fx.conn.Invoke(cctx, tagReq{tag}, out)
					simrt.Ev("invoke-return", "tag=%d err=%v got=%v", tag, err, out.got)
					if a.dup && err == nil && len(out.got) == 1 && out.got[0] == -2 {
						return // completed with the second answer: equally its own
					}
					if a.isErr {
						re, ok := tgerr.As(err)
						if !ok || re.Code != a.code || re.Message != a.msg {
							viol("C24.wrong-completion", "wrong-completion"+a.form, "call %d was answered with rpc_error %d %q (%s) and returned %v", tag, a.code, a.msg, a.form, err)
						}
						if len(out.got) != 0 {
							viol("C24.wrong-completion", "output-written-on-error", "call %d was answered with an rpc_error, yet its output was written: %v", tag, out.got)
						}
						return
					}
					if err != nil || len(out.got) != 1 || out.got[0] != a.value {
						viol("C24.wrong-completion", "wrong-completion"+a.form, "call %d was answered with value %d (%s) and returned err=%v output=%v", tag, a.value, a.form, err, out.got)
					}
				})
			}
			for i := 0; i < n; i++ {
				simrt.Recv(0, fin)
			}
			simrt.Sleep(0, 200*time.Millisecond)
			return nil
		})
		simrt.Recv(0, done)
	})
}

func first4(b []byte) []byte {
	if len(b) >= 4 {
		return b[:4]
	}
	return b
}

// ---- C41 -------------------------------------------------------------------------------

func runC41(t *testing.T, tape *simrt.Tape, env dst.Env) *simrt.Outcome {
	return simrt.Run(t, tape, simrt.Options{Policy: -1}, func(s *simrt.Sim) {
		viol := func(rule, sig, format string, args ...any) { simrt.Violate("C41", rule, sig, format, args...) }
		fx := newFixture(tape, func(o *mtproto.Options) {
			o.SaltFetchInterval = time.Duration(1+tape.Choose(simrt.Cfg, 4)) * 10 * time.Minute
			o.RetryInterval = 20 * time.Second
		})
		lastTold := int64(1) // the salt the connection was created with
		type fut struct {
			salt         int64
			since, until int
			givenAt      time.Duration
		}
		var stored []fut // every future salt the server gave
		nextSalt := int64(100)
		rejectPlan := map[int64]int{}   // tag -> how many times to reject with bad_server_salt
		rejected := map[int64]int{}     // msg id -> rejections so far
		sendsAfter := map[int64]int{}   // msg id -> transmissions after its last rejection
		expectSalt := map[int64]int64{} // msg id -> salt the next transmission must carry
		const lookAhead = 300           // seconds (the statement's look-ahead window)
		prevSalt, toldAt, prevMsgAt := int64(1), time.Duration(0), time.Duration(0)
		type toldRec struct {
			salt  int64
			until time.Duration // simulated time at which a newer salt was told
		}
		var recentTold []toldRec
		choosable := map[int64]bool{} // future salts that outlived the look-ahead when given
		lastSeenC := map[int64]int{}  // msg id -> client time of its previous transmission
		fx.srv.onMsg = func(m *clientMsg) {
			nowC := int(fx.clk.Now().Unix())
			// bookkeeping per request: a request re-sent under a new message id is still that request
			rk := m.msgID
			if tag, isReq := reqTag(m.body); isReq {
				rk = tag
			}
			// The salt on the wire: the last salt told, or a future salt given by
			// the server whose validity ends after the look-ahead window. When no
			// given salt outlives the window and nothing new was told, the
			// statement leaves no candidate: the salt then has to stay the one
			// already in use (any message must carry some salt; the server
			// answers bad_server_salt, which is the other half of the property).
			// (a message written before the client processed the newest telling
			// still carries the one before: allowed for a second of simulated
			// time, processing itself takes none)
			ok := m.salt == lastTold
			graceOnly := false
			for _, t := range recentTold {
				if !ok && m.salt == t.salt && simrt.Now()-t.until <= time.Second {
					ok, graceOnly = true, true
				}
			}
			// the client chose the salt at some client-clock time between the
			// creation of the message id (first transmission; the previous
			// transmission otherwise) and now: a clock jump may lie in between
			lowC := int(m.msgID >> 32)
			if prev, seen := lastSeenC[m.msgID]; seen {
				lowC = prev
			}
			if lowC > nowC {
				lowC = nowC
			}
			lastSeenC[m.msgID] = nowC
			known, mustKnowValid := false, false
			for _, f := range stored {
				valid := f.until > lowC+lookAhead
				// what the client certainly knows: salts given after the last
				// telling (it may forget the earlier ones when told a new salt)
				if f.until > nowC+lookAhead && f.givenAt > toldAt && f.givenAt+time.Second <= simrt.Now() {
					mustKnowValid = true
				}
				if f.salt == m.salt {
					known = true
					ok = ok || valid
					if valid {
						graceOnly = false
					}
				}
			}
			// "stays the one already in use" holds only while nothing new was told
			// since that salt was last seen on the wire (a telling older than the
			// grace second has been processed, and a told salt replaces the one in
			// use); a message accepted only by that grace does not establish its
			// salt as the one in use
			stays := m.salt == prevSalt && (prevMsgAt > toldAt || toldAt == 0 || simrt.Now()-toldAt <= time.Second)
			if !ok && !mustKnowValid && (stays || choosable[m.salt]) {
				ok = true
				simrt.Probe("C41.no-valid-salt-left")
			}
			if !graceOnly {
				prevSalt, prevMsgAt = m.salt, simrt.Now()
			}
			if !ok {
				rule, sig := "C41.unknown-salt", "unknown-salt"
				if known {
					rule, sig = "C41.expired-salt", "expired-salt"
				}
				viol(rule, sig, "message %d carries salt %d at client time %d; the last salt the server told is %d and the future salts it gave are %v (salt, since, until)", m.msgID, m.salt, nowC, lastTold, stored)
			}
			if want, ok := expectSalt[rk]; ok {
				delete(expectSalt, rk)
				fresh := false // a future salt given after that rejection is as new
				for _, f := range stored {
					if f.salt == m.salt && f.givenAt >= toldAt && f.until > nowC+lookAhead {
						fresh = true
					}
				}
				if m.salt != want && !fresh {
					viol("C41.resend-salt", "resend-salt", "message %d was rejected with bad_server_salt(new salt %d) but re-sent with salt %d", m.msgID, want, m.salt)
				}
			}
			if rejected[rk] > 0 {
				sendsAfter[rk]++
			}
			switch {
			case m.typeID == mt.PingDelayDisconnectRequestTypeID:
				var p mt.PingDelayDisconnectRequest
				if p.Decode(&bin.Buffer{Buf: m.body}) == nil {
					fx.srv.send(enc(&mt.Pong{MsgID: m.msgID, PingID: p.PingID}), sendOpt{tag: "pong", noFaults: true})
				}
			case m.typeID == mt.PingRequestTypeID:
				var p mt.PingRequest
				if p.Decode(&bin.Buffer{Buf: m.body}) == nil {
					fx.srv.send(enc(&mt.Pong{MsgID: m.msgID, PingID: p.PingID}), sendOpt{tag: "pong", noFaults: true})
				}
			case m.typeID == mt.GetFutureSaltsRequestTypeID:
				var fs mt.FutureSalts
				fs.ReqMsgID, fs.Now = m.msgID, nowC
				for n := tape.Choose(simrt.Wl, 5); n > 0; n-- {
					nextSalt++
					f := fut{salt: nextSalt, givenAt: simrt.Now()}
					switch tape.Choose(simrt.Wl, 5) {
					case 0: // already expired
						f.since, f.until = nowC-7200, nowC-60
					case 1: // expires within the look-ahead
						f.since, f.until = nowC-600, nowC+60+tape.Choose(simrt.Wl, 200)
					case 2: // current
						f.since, f.until = nowC-60, nowC+1800+tape.Choose(simrt.Wl, 1800)
					case 3: // overlapping next
						f.since, f.until = nowC+900, nowC+5400
					default: // far future
						f.since, f.until = nowC+86400, nowC+90000
					}
					fs.Salts = append(fs.Salts, mt.FutureSalt{ValidSince: f.since, ValidUntil: f.until, Salt: f.salt})
					stored = append(stored, f)
					if f.until > nowC+lookAhead {
						// legitimately adopted on any read or write from now on, and
						// then kept when nothing better is known
						choosable[f.salt] = true
					}
					if tape.Coin(simrt.Wl, 1, 4) {
						fs.Salts = append(fs.Salts, fs.Salts[len(fs.Salts)-1]) // duplicate entry
					}
				}
				fx.srv.send(enc(&fs), sendOpt{tag: fmt.Sprintf("future_salts x%d", len(fs.Salts)), noFaults: true})
			default:
				tag, isReq := reqTag(m.body)
				if !isReq {
					return
				}
				if rejected[rk] < rejectPlan[tag] {
					rejected[rk]++
					sendsAfter[rk] = 0
					nextSalt++
					recentTold = append(recentTold, toldRec{lastTold, simrt.Now()})
					toldAt, lastTold = simrt.Now(), nextSalt
					expectSalt[rk] = nextSalt
					simrt.FaultFired("bad-server-salt", "msg %d -> new salt %d", m.msgID, nextSalt)
					fx.srv.send(enc(&mt.BadServerSalt{BadMsgID: m.msgID, BadMsgSeqno: int(m.seqNo), ErrorCode: 48, NewServerSalt: nextSalt}), sendOpt{tag: "bad_server_salt", noFaults: true})
					return
				}
				fx.srv.send(enc(&mt.MsgsAck{MsgIDs: []int64{m.msgID}}), sendOpt{tag: "ack", noFaults: true})
				fx.srv.send(fx.srv.result(m.msgID, respBody(tag)), sendOpt{content: true, tag: fmt.Sprintf("result %d", tag), noFaults: true})
			}
		}
		ctx, cancel := context.WithCancel(context.Background())
		defer cancel()
		done := fx.runConn(ctx, func(ctx context.Context) error {
			// the server announces the session (and its salt) after the first message
			first := true
			n := tape.Range(simrt.Wl, 2, 8)
			for i := 0; i < n; i++ {
				tag := int64(20 + i)
				rejectPlan[tag] = simrt.Pick(tape, simrt.Fault, 0, 0, 1, 1, 2)
				cctx, cc := context.WithTimeout(ctx, 15*time.Second)
				var out tagResp
				err := fx.conn.Invoke(cctx, tagReq{tag}, &out)
				cc()
				simrt.Ev("invoke-done", "tag=%d rejections-planned=%d err=%v", tag, rejectPlan[tag], err)
				switch {
				case rejectPlan[tag] <= 1 && err != nil:
					viol("C41.retry-missing", "retry-missing", "request %d was rejected %d time(s) with bad_server_salt and must succeed after one re-send, but failed: %v", tag, rejectPlan[tag], err)
				case rejectPlan[tag] >= 2 && err == nil:
					viol("C41.retry-twice", "retry-twice", "request %d was rejected twice with bad_server_salt, yet the call succeeded: it was re-sent more than once", tag)
				}
				if first {
					first = false
					nextSalt++
					recentTold = append(recentTold, toldRec{lastTold, simrt.Now()})
					toldAt, lastTold = simrt.Now(), nextSalt
					fx.srv.send(enc(&mt.NewSessionCreated{FirstMsgID: fx.srv.msgs[0].msgID, UniqueID: 77, ServerSalt: nextSalt}), sendOpt{content: true, tag: "new_session_created", noFaults: true})
					simrt.Sleep(0, 100*time.Millisecond)
				}
				// time passes: seconds to hours (salts expire, the fetch timer fires)
				switch tape.Choose(simrt.Clock, 4) {
				case 0:
					simrt.Sleep(0, time.Duration(1+tape.Choose(simrt.Clock, 50))*time.Second)
				case 1:
					simrt.Sleep(0, time.Duration(1+tape.Choose(simrt.Clock, 90))*time.Minute)
				case 2:
					fx.clk.off += time.Duration(1+tape.Choose(simrt.Clock, 120)) * time.Minute // clock jump
					simrt.FaultFired("clock-jump", "")
				}
			}
			return nil
		})
		simrt.Recv(0, done)
		for id, k := range rejected {
			if k >= 2 && sendsAfter[id] > 0 {
				viol("C41.resend-after-second-rejection", "resend-after-second-rejection", "message %d was rejected twice with bad_server_salt and transmitted %d more time(s)", id, sendsAfter[id])
			}
		}
	})
}

// ---- C43 -------------------------------------------------------------------------------

func runC43(t *testing.T, tape *simrt.Tape, env dst.Env) *simrt.Outcome {
	return simrt.Run(t, tape, simrt.Options{Policy: -1}, func(s *simrt.Sim) {
		viol := func(rule, sig, format string, args ...any) { simrt.Violate("C43", rule, sig, format, args...) }
		interval := time.Duration(2+tape.Choose(simrt.Cfg, 4)) * time.Second
		timeout := time.Duration(1+tape.Choose(simrt.Cfg, 3)) * time.Second
		fx := newFixture(tape, func(o *mtproto.Options) { o.PingInterval, o.PingTimeout = interval, timeout })
		pings := map[int64]*pingRec{}
		var keepalive []*pingRec
		stallFrom := time.Duration(-1)
		if tape.Coin(simrt.Fault, 1, 5) {
			stallFrom = time.Duration(tape.Choose(simrt.Fault, 20)) * 500 * time.Millisecond
		}
		fx.srv.onMsg = func(m *clientMsg) {
			var pid int64
			keep := false
			switch m.typeID {
			case mt.PingRequestTypeID:
				var p mt.PingRequest
				if p.Decode(&bin.Buffer{Buf: m.body}) != nil {
					return
				}
				pid = p.PingID
			case mt.PingDelayDisconnectRequestTypeID:
				var p mt.PingDelayDisconnectRequest
				if p.Decode(&bin.Buffer{Buf: m.body}) != nil {
					return
				}
				pid, keep = p.PingID, true
			default:
				return
			}
			r := &pingRec{id: pid, sentT: simrt.Now(), keep: keep, pongT: -1, plan: tape.Choose(simrt.Net, 10)}
			pings[pid] = r
			if keep {
				keepalive = append(keepalive, r)
			}
			pong := func(id int64, wrapped bool) []byte {
				b := enc(&mt.Pong{MsgID: m.msgID, PingID: id})
				if wrapped {
					return fx.srv.result(m.msgID, b)
				}
				return b
			}
			deliver := func(body []byte, tag string, matching bool, after time.Duration) {
				simrt.Go("pong", func() {
					simrt.Sleep(0, after)
					if fx.link.isClosed {
						return
					}
					if matching && r.pongT < 0 {
						r.pongT = simrt.Now()
					}
					fx.srv.send(body, sendOpt{tag: tag, noFaults: true})
				})
			}
			grid := time.Duration(tape.Choose(simrt.Net, 4)) * 250 * time.Millisecond
			switch r.plan {
			case 0, 1, 2, 3:
				deliver(pong(pid, false), "pong", true, grid)
			case 4:
				deliver(pong(pid, true), "pong in rpc_result", true, grid)
			case 5:
				simrt.FaultFired("pong-other-id", "")
				deliver(pong(pid+1, false), "pong for another ping", false, grid)
			case 6:
				simrt.FaultFired("pong-duplicated", "")
				deliver(pong(pid, false), "pong", true, grid)
				// (back to back as well: both are then handled before the waiter runs)
				deliver(pong(pid, false), "pong (duplicate)", true, grid+time.Duration(tape.Choose(simrt.Net, 3)/2)*100*time.Millisecond)
			case 7:
				simrt.FaultFired("pong-late", "")
				deliver(pong(pid, false), "late pong", true, timeout+grid)
			case 8:
				simrt.FaultFired("pong-at-deadline", "")
				deliver(pong(pid, false), "pong at the deadline", true, timeout)
			default:
				simrt.FaultFired("pong-never", "")
			}
		}
		ctx, cancel := context.WithCancel(context.Background())
		defer cancel()
		start := simrt.Now()
		var runErr error
		var runEnd time.Duration = -1
		userDone := false
		done := fx.runConn(ctx, func(ctx context.Context) error {
			// the connection has ended when the context of its task group is
			// cancelled (Run itself returns only after this function does)
			simrt.Go("end-watch", func() {
				simrt.Recv(0, ctx.Done())
				if runEnd < 0 {
					runEnd = simrt.Now()
				}
			})
			if stallFrom >= 0 {
				simrt.Go("staller", func() {
					simrt.Sleep(0, stallFrom)
					simrt.FaultFired("link-half-open", "client writes block from %v on", simrt.Now())
					fx.link.stallOut = true
				})
			}
			for k := tape.Choose(simrt.Wl, 4); k > 0; k-- {
				simrt.Sleep(0, time.Duration(tape.Choose(simrt.Wl, 6))*300*time.Millisecond)
				d := time.Duration(1+tape.Choose(simrt.Wl, 4)) * 500 * time.Millisecond
				cctx, cc := context.WithTimeout(ctx, d)
				t0 := simrt.Now()
				before := map[int64]bool{}
				for id := range pings {
					before[id] = true
				}
				err := fx.conn.Ping(cctx)
				t1 := simrt.Now()
				cc()
				simrt.Ev("ping-return", "err=%v after %v", err, t1-t0)
				// which ping was mine: the non-keepalive ping recorded during the call
				var mine *pingRec
				for id, r := range pings {
					if !before[id] && !r.keep {
						mine = r
					}
				}
				if err == nil {
					if mine == nil || mine.pongT < 0 || mine.pongT > t1 {
						viol("C43.ping-success-without-pong", "ping-success-without-pong", "Ping returned nil although no pong with its ping id had been delivered")
					}
				} else if t1 > t0+d+time.Millisecond && ctx.Err() == nil {
					viol("C43.ping-overrun", "ping-overrun", "Ping returned %v after %v; its context ended after %v", err, t1-t0, d)
				}
			}
			// keep the connection up for a few keep-alive rounds
			simrt.WaitUntil(50*time.Millisecond, 3*interval+timeout+time.Second, func() bool { return ctx.Err() != nil })
			if ctx.Err() == nil {
				userDone = true
				runEnd = simrt.Now()
			}
			return nil
		})
		runErr, _ = simrt.Recv(0, done)
		if runEnd < 0 {
			runEnd = simrt.Now()
		}
		_ = start
		// keep-alive: every keep-alive ping without a matching pong within the
		// timeout must end the connection by then
		for _, r := range keepalive {
			deadline := r.sentT + timeout
			answered := r.pongT >= 0 && r.pongT <= deadline
			if !answered && (runEnd > deadline+time.Millisecond || (runErr == nil && userDone && runEnd > deadline)) {
				if runEnd > deadline+time.Millisecond {
					viol("C43.keepalive-missed", "keepalive-missed", "keep-alive ping sent at %v got no pong within %v, but the connection ended only at %v (err=%v)", r.sentT, timeout, runEnd, runErr)
				}
			}
			if answered && !userDone && runErr != nil && runEnd < deadline && stallFrom < 0 && !anyUnanswered(keepalive, runEnd, timeout) {
				viol("C43.keepalive-spurious", "keepalive-spurious", "the connection ended at %v with %v although every keep-alive ping was answered in time", runEnd, runErr)
			}
		}
		// half-open link: writes block; the keep-alive ping issued after that
		// cannot be written and must end the connection within the timeout
		if stallFrom >= 0 && !userDone {
			// first keep-alive tick at or after the stall
			k := (stallFrom + interval - 1) / interval
			if k == 0 {
				k = 1
			}
			tick := k * interval
			for _, r := range keepalive {
				if r.sentT == tick {
					// the ping of that very instant was written before the
					// stall began: the next one is the first to block
					tick += interval
				}
			}
			// the loop is sequential: that ping starts once the one before it has
			// returned, at the latest when that one's timeout ends
			begin := tick
			for _, r := range keepalive {
				if r.sentT < tick && r.sentT+timeout > begin {
					begin = r.sentT + timeout
				}
			}
			if runEnd > begin+timeout+time.Millisecond {
				viol("C43.keepalive-missed", "keepalive-missed half-open", "client writes blocked from %v; the keep-alive ping due at %v (started by %v at the latest) could not get a pong, but the connection ended only at %v (ping timeout %v)", stallFrom, tick, begin, runEnd, timeout)
			}
		}
		if stallFrom >= 0 && userDone && runEnd > stallFrom+interval+2*timeout+time.Millisecond {
			viol("C43.keepalive-missed", "keepalive-missed half-open", "client writes blocked from %v, yet the connection was never ended by the keep-alive loop (ended normally at %v)", stallFrom, runEnd)
		}
	})
}

type pingRec struct {
	id    int64
	sentT time.Duration
	keep  bool
	pongT time.Duration // when a matching pong was handed to the client (-1: never)
	plan  int
}

// anyUnanswered: some keep-alive ping had no matching pong by its deadline,
// and that deadline is not after end (a legitimate reason for the connection
// to have ended by then).
func anyUnanswered(ks []*pingRec, end, timeout time.Duration) bool {
	for _, r := range ks {
		deadline := r.sentT + timeout
		if deadline <= end+time.Millisecond && !(r.pongT >= 0 && r.pongT <= deadline) {
			return true
		}
	}
	return false
}
