// Package fs is world W7: the real session.Loader + session.FileStorage over
// the simulated disk (simos), with a crash at every syscall boundary, torn
// writes, and two recovery models. Decides C31.
package fs

import (
	"context"
	"errors"
	"fmt"
	"reflect"
	"syscall"
	"testing"

	"github.com/gotd/td/session"
	"github.com/gotd/td/tg"

	"verif/dst"
	"verif/simos"
	"verif/simrt"
)

var World = dst.World{
	Name:  "fs",
	Props: []string{"C31"},
	Run:   run,
	Real:  []string{"session.Loader.Save/Load", "session.FileStorage.StoreSession/LoadSession (its os calls go to simos through the instrumenter's import swap)"},
	Stub:  []string{"disk: simos in-memory FS with volatile/durable split, syscall-granular crash, torn writes, process-crash and power-loss recovery"},
}

const path = "/data/session.json"

func genData(tape *simrt.Tape, i int) *session.Data {
	d := &session.Data{DC: 1 + tape.Choose(simrt.Wl, 5), Addr: fmt.Sprintf("10.0.0.%d:443", i), Salt: int64(tape.Uint64(simrt.Wl))}
	d.AuthKey = make([]byte, 256)
	tape.Fill(simrt.Wl, d.AuthKey)
	d.AuthKeyID = make([]byte, 8)
	tape.Fill(simrt.Wl, d.AuthKeyID)
	d.Config.ThisDC = d.DC
	n := tape.Choose(simrt.Wl, 24)
	for k := 0; k < n; k++ {
		d.Config.DCOptions = append(d.Config.DCOptions, tg.DCOption{ID: 1 + k%5, IPAddress: fmt.Sprintf("149.154.%d.%d", i, k), Port: 443})
	}
	return d
}

type config struct {
	crashAt int // syscall number (1-based) before/inside which the crash happens; 0 = no crash
	torn    int // 0: crash before the syscall; >0: if it is a write, class of the torn prefix
	model   int // 0 process crash, 1 power loss
	errAt   int // syscall failing with an I/O error (0 = none); only without crash
	errKind int
	pl      int // power-loss survival pattern (enumeration only; a replay reads the fault stream)
}

// one simulated life: initial state, saves with a crash, recovery, load.
func runOne(t *testing.T, tape *simrt.Tape, datas []*session.Data, hasInitial bool, cf config) (*simrt.Outcome, int) {
	syscalls := 0
	out := simrt.Run(t, tape, simrt.Options{Policy: 0}, func(s *simrt.Sim) {
		disk := simos.New()
		simos.Current = disk
		defer func() { simos.Current = nil }()
		_ = simos.MkdirAll("/data", 0o755)
		// state before the saves under test
		prev := -1 // index into datas of the last completely saved session; -1 none
		if hasInitial {
			l := &session.Loader{Storage: &session.FileStorage{Path: path}}
			if err := l.Save(context.Background(), datas[0]); err != nil {
				simrt.Violate("C31", "C31.harness", "harness", "initial save failed: %v", err)
				return
			}
			prev = 0
		}
		disk.MakeDurable()
		disk.Syscalls, disk.Log = 0, nil
		disk.CrashAt = cf.crashAt
		if cf.torn > 0 {
			disk.TornBytes = func(n int) int {
				switch cf.torn {
				case 1:
					return 0
				case 2:
					return 1
				case 3:
					return n / 2
				case 4:
					if n > 512 {
						return 512
					}
					return n - 1
				case 5:
					return (n / 512) * 512
				default:
					return n - 1
				}
			}
		}
		if cf.errAt > 0 {
			disk.ErrAt = cf.errAt
			disk.Err = []error{syscall.ENOSPC, syscall.EIO}[cf.errKind%2]
		}
		inFlight := -1
		done := make(chan struct{})
		grp := s.NewGroup()
		crashedCh := make(chan struct{})
		s.OnFreeze(grp, func() { close(crashedCh) })
		var saveErr error
		simrt.GoIn(grp, "saver", func() {
			defer close(done)
			l := &session.Loader{Storage: &session.FileStorage{Path: path}}
			for i := 1; i < len(datas); i++ {
				inFlight = i
				simrt.Ev("save-begin", "S%d", i)
				err := l.Save(context.Background(), datas[i])
				simrt.Ev("save-end", "S%d err=%v", i, err)
				if err != nil {
					saveErr = err
					inFlight = -1
					return
				}
				prev = i
				inFlight = -1
			}
		})
		// wait for completion or crash
		simrt.Select(0, false, simrt.SelRecv(done), simrt.SelRecv(crashedCh))
		syscalls = disk.Syscalls
		crashed := disk.Crashed
		simos.Current = nil
		var rec *simos.FS
		switch {
		case !crashed:
			rec = disk.RecoverProcessCrash()
		case cf.model == 0:
			rec = disk.RecoverProcessCrash()
			simrt.Ev("recover", "process crash at syscall %d (%v)", disk.Syscalls, last(disk.Log))
		default:
			// every power-loss choice is a fraction drawn from the tape, so
			// that fixed patterns (all survive / none / rename without data)
			// can be enumerated and replayed
			rec = disk.RecoverPowerLoss(func(n int) int { return tape.Choose(simrt.Fault, 1000) * n / 1000 })
			simrt.Ev("recover", "power loss at syscall %d (%v)", disk.Syscalls, last(disk.Log))
		}
		simos.Current = rec
		l := &session.Loader{Storage: &session.FileStorage{Path: path}}
		got, err := l.Load(context.Background())
		simos.Current = nil
		simrt.Ev("load", "err=%v", err)
		if crashed {
			// The next life saves again, undisturbed, on what the crash left behind
			// (stale temporary files included): that save is complete, so the file
			// must then hold exactly the new session. A shorter session than any
			// before, so that left-over bytes show.
			defer func() {
				after := &session.Data{DC: 3, Addr: "x", AuthKey: make([]byte, 256), AuthKeyID: make([]byte, 8), Salt: 7}
				simos.Current = rec
				defer func() { simos.Current = nil }()
				l := &session.Loader{Storage: &session.FileStorage{Path: path}}
				serr := l.Save(context.Background(), after)
				got2, lerr := l.Load(context.Background())
				simrt.Ev("save-after-recovery", "save err=%v load err=%v", serr, lerr)
				if serr != nil || lerr != nil || !reflect.DeepEqual(got2, after) {
					simrt.Violate("C31", "C31.poisoned", "poisoned "+syscallName(last(disk.Log)),
						"after a crash at syscall %d (%s) and recovery, an undisturbed save of a new session does not leave that session in the file (save err=%v, load err=%v): what the interrupted save left behind corrupts later saves; syscalls of the interrupted life: %v",
						disk.Syscalls, last(disk.Log), serr, lerr, disk.Log)
				}
			}()
		}

		// what is acceptable
		allowed := map[int]bool{}
		switch {
		case !crashed && saveErr == nil:
			allowed[prev] = true
		case !crashed && saveErr != nil:
			// an I/O error is outside the statement: recorded as a probe only
			ok := err == nil || errors.Is(err, session.ErrNotFound)
			if !ok || (err == nil && !matchAny(got, datas)) {
				simrt.Probe("io-error-left-unloadable-session")
			}
			return
		case cf.model == 0:
			allowed[prev] = true
			if inFlight >= 0 {
				allowed[inFlight] = true
			}
		default:
			// power loss: a rename/creation that was never made durable may be
			// lost, so any complete earlier session (or the new one) is usable
			for i := -1; i < len(datas); i++ {
				if i <= prev || i == inFlight {
					allowed[i] = true
				}
			}
			if !hasInitial {
				allowed[-1] = true
			}
		}
		what := "S?"
		switch {
		case err != nil && errors.Is(err, session.ErrNotFound):
			if allowed[-1] {
				return
			}
			what = "not-found"
		case err != nil:
			what = "load-error"
		default:
			for i, d := range datas {
				if reflect.DeepEqual(got, d) {
					if allowed[i] {
						return
					}
					what = fmt.Sprintf("stale-S%d", i)
				}
			}
			if what == "S?" {
				what = "garbage"
			}
		}
		model := []string{"process-crash", "power-loss"}[cf.model]
		where := "before"
		if cf.torn > 0 {
			where = "inside"
		}
		simrt.Violate("C31", "C31.not-atomic", fmt.Sprintf("%s %s %s", model, what, syscallName(last(disk.Log))),
			"crash %s syscall %d (%s) while saving S%d (previous complete session: S%d), recovery model %s: the next start loads %s (err=%v); syscalls so far: %v",
			where, disk.Syscalls, last(disk.Log), inFlight, prev, model, what, err, disk.Log)
	})
	return out, syscalls
}

func matchAny(got *session.Data, datas []*session.Data) bool {
	for _, d := range datas {
		if reflect.DeepEqual(got, d) {
			return true
		}
	}
	return false
}

func last(l []string) string {
	if len(l) == 0 {
		return "-"
	}
	return l[len(l)-1]
}

func syscallName(s string) string {
	// "3:write /data/x off=0 len=10" -> "write"
	for i := 0; i < len(s); i++ {
		if s[i] == ':' {
			s = s[i+1:]
			break
		}
	}
	for i := 0; i < len(s); i++ {
		if s[i] == ' ' {
			return s[:i]
		}
	}
	return s
}

// run: with a generating tape, sample the session contents and enumerate
// every crash point x torn class x recovery model (plus every I/O-error
// point); with a replay tape, run exactly the recorded configuration.
func run(t *testing.T, tape *simrt.Tape, env dst.Env) *simrt.Outcome {
	nSaves := tape.Range(simrt.Wl, 1, 3)
	hasInitial := tape.Coin(simrt.Wl, 3, 4)
	datas := []*session.Data{genData(tape, 0)}
	for i := 1; i <= nSaves; i++ {
		datas = append(datas, genData(tape, i))
	}
	wl := tape.Data()["wl"]
	if tape.Replay {
		cf := config{crashAt: tape.Choose(simrt.Cfg, 1<<16), torn: tape.Choose(simrt.Cfg, 8), model: tape.Choose(simrt.Cfg, 2), errAt: tape.Choose(simrt.Cfg, 1<<16), errKind: tape.Choose(simrt.Cfg, 2)}
		o, _ := runOne(t, tape, datas, hasInitial, cf)
		return o
	}
	// power-loss survival patterns (fractions/1000, consumed in order: how many
	// pending namespace operations survive, then per un-synced file: which
	// class, then where it is torn)
	patterns := [][]uint32{
		nil,             // nothing un-synced survives
		{999},           // everything, repeated
		{999, 0},        // renames/creations survive, un-synced data does not
		{0, 999},        // namespace operations lost, data written through
		{500, 600, 500}, // half of the namespace operations, data torn on the 512-byte grid
		{999, 800, 300}, // all namespace operations, data torn at a byte
		{600, 300},      // most namespace operations, all data
	}
	mk := func(cf config) *simrt.Tape {
		d := simrt.TapeData{"wl": wl, "cfg": {uint32(cf.crashAt), uint32(cf.torn), uint32(cf.model), uint32(cf.errAt), uint32(cf.errKind)}}
		if pat := patterns[cf.pl%len(patterns)]; len(pat) > 0 {
			for len(d["fault"]) < 24 {
				d["fault"] = append(d["fault"], pat...)
			}
		}
		return simrt.ReplayTape(tape.Seed, d)
	}
	replayDatas := func(tp *simrt.Tape) {
		// consume the same workload draws so that the recorded tape is complete
		tp.Range(simrt.Wl, 1, 3)
		tp.Coin(simrt.Wl, 3, 4)
		genData(tp, 0)
		for i := 1; i <= nSaves; i++ {
			genData(tp, i)
		}
		for _, n := range []int{1 << 16, 8, 2, 1 << 16, 2} {
			tp.Choose(simrt.Cfg, n)
		}
	}
	// dry run: count syscall boundaries
	tp := mk(config{})
	replayDatas(tp)
	base, n := runOne(t, tp, datas, hasInitial, config{})
	if base.HarnessErr != "" || len(base.Violations) > 0 {
		return base
	}
	agg := base
	inner := 1
	for at := 1; at <= n; at++ {
		for mv := 0; mv < 1+len(patterns); mv++ {
			model, pl := 0, 0
			if mv > 0 {
				model, pl = 1, mv-1
			}
			for torn := 0; torn <= 6; torn++ {
				cf := config{crashAt: at, torn: torn, model: model, pl: pl}
				tp := mk(cf)
				replayDatas(tp)
				o, _ := runOne(t, tp, datas, hasInitial, cf)
				inner++
				if torn > 0 && o.Faults["torn-write"] == 0 {
					// not a write syscall: torn classes are meaningless here
					break
				}
				merge(agg, o)
				if o.HarnessErr != "" || len(o.Violations) > 0 {
					o.Probes, o.Faults = agg.Probes, agg.Faults
					o.Probes["inner-runs"] = inner
					return o
				}
			}
		}
		for kind := 0; kind < 2; kind++ {
			cf := config{errAt: at, errKind: kind}
			tp := mk(cf)
			replayDatas(tp)
			o, _ := runOne(t, tp, datas, hasInitial, cf)
			inner++
			merge(agg, o)
			if o.HarnessErr != "" || len(o.Violations) > 0 {
				return o
			}
		}
	}
	agg.Probes["inner-runs"] = inner
	agg.Probes["crash-points-enumerated"] = n
	// distinct per content and shape
	// (one evaluation = one sampled save sequence with all its crash points)
	fp := []uint64{uint64(n), uint64(nSaves)}
	for _, d := range datas {
		fp = append(fp, uint64(len(d.Config.DCOptions)), uint64(d.Salt))
	}
	agg.Fingerprint = simrt.Mix(fp...)
	return agg
}

func merge(a, o *simrt.Outcome) {
	for k, v := range o.Faults {
		a.Faults[k] += v
	}
	for k, v := range o.Probes {
		a.Probes[k] += v
	}
	a.Steps += o.Steps
	a.Yields += o.Yields
	a.Fingerprint = a.Fingerprint*1099511628211 ^ o.Fingerprint
}
