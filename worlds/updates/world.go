// Package updates is world W1: the real updates.Manager (internalState,
// channelState, sequenceBox, gapBuffer) against a model Telegram server, a
// lossy/duplicating/reordering push network, a storage whose writes are the
// durable state, and crash/restart. Decides C01, C02, C03.
package updates

import (
	"context"
	"fmt"
	"sort"
	"testing"
	"time"

	tdupdates "github.com/gotd/td/telegram/updates"
	"github.com/gotd/td/tg"

	"verif/dst"
	"verif/simrt"
)

var World = dst.World{
	Name:  "updates",
	Props: []string{"C01", "C02", "C03"},
	Run:   run,
	Real: []string{"updates.Manager.Run/Handle/HandleAffected", "updates internalState (main loop, getDifference, applyCombined, applyPts/applyQts/applySeq)", "updates channelState (per-channel worker, getChannelDifference)",
		"updates sequenceBox / gapBuffer / checkGap (also driven directly through the overlay export)", "gap (0.5 s) and idle (15 min) timers on the bubble clock"},
	Stub: []string{"model Telegram server (update logs, getState/getDifference/getChannelDifference; DESIGN appendix D)", "push network (loss, duplication, delay, reordering, batching)",
		"StateStorage (writes are durable; injected write errors)", "access hashers (durable maps)", "recording handler", "crash = freezing the manager's task group"},
}

const selfID = 1

// ---- durable storage ------------------------------------------------------------

type store struct {
	w        *world
	has      bool
	st       tdupdates.State
	chans    map[int64]int
	calls    int
	failDen  int
	crashAt  int // crash the caller right before (mode 0) / after (mode 1) this call number
	crashPos int
}

func (s *store) op(name string, apply func(), check func()) error {
	s.calls++
	simrt.Ev("storage", "#%d %s", s.calls, name)
	if s.crashAt == s.calls && s.crashPos == 0 {
		s.w.crash("before storage call " + name)
	}
	if s.failDen > 0 && s.w.faultsOn() && s.w.tape.Coin(simrt.Fault, 1, s.failDen) {
		simrt.FaultFired("storage-error", "%s", name)
		return fmt.Errorf("simulated storage failure in %s", name)
	}
	if check != nil {
		check()
	}
	apply()
	if s.crashAt == s.calls && s.crashPos == 1 {
		s.w.crash("after storage call " + name)
	}
	return nil
}

func (s *store) GetState(ctx context.Context, userID int64) (tdupdates.State, bool, error) {
	return s.st, s.has, nil
}

func (s *store) SetState(ctx context.Context, userID int64, st tdupdates.State) error {
	return s.op(fmt.Sprintf("SetState pts=%d qts=%d seq=%d", st.Pts, st.Qts, st.Seq), func() {
		// like the in-tree storages, a full state write does not touch channels
		s.st, s.has = st, true
	}, func() {
		if !s.has {
			s.w.baseline("pts", st.Pts)
			s.w.baseline("qts", st.Qts)
			s.w.durableBaseline("pts", st.Pts)
			s.w.durableBaseline("qts", st.Qts)
			return
		}
		s.w.persisting("pts", st.Pts)
		s.w.persisting("qts", st.Qts)
	})
}

func (s *store) SetPts(ctx context.Context, userID int64, pts int) error {
	return s.op(fmt.Sprintf("SetPts %d", pts), func() { s.st.Pts = pts }, func() { s.w.persisting("pts", pts) })
}

func (s *store) SetQts(ctx context.Context, userID int64, qts int) error {
	return s.op(fmt.Sprintf("SetQts %d", qts), func() { s.st.Qts = qts }, func() { s.w.persisting("qts", qts) })
}

func (s *store) SetDate(ctx context.Context, userID int64, date int) error {
	return s.op("SetDate", func() { s.st.Date = date }, nil)
}

func (s *store) SetSeq(ctx context.Context, userID int64, seq int) error {
	return s.op(fmt.Sprintf("SetSeq %d", seq), func() { s.st.Seq = seq }, nil)
}

func (s *store) SetDateSeq(ctx context.Context, userID int64, date, seq int) error {
	return s.op(fmt.Sprintf("SetDateSeq seq=%d", seq), func() { s.st.Date, s.st.Seq = date, seq }, nil)
}

func (s *store) GetChannelPts(ctx context.Context, userID, channelID int64) (int, bool, error) {
	v, ok := s.chans[channelID]
	return v, ok, nil
}

func (s *store) SetChannelPts(ctx context.Context, userID, channelID int64, pts int) error {
	name := fmt.Sprintf("ch%d", channelID)
	_, known := s.chans[channelID]
	if _, tracked := s.w.base[name]; !known && !tracked {
		// first sight of the channel: the library starts tracking it from this
		// position (pts - pts_count of the first update), whether or not the
		// write succeeds
		s.w.baseline(name, pts)
		// The library starts tracking a channel because it received an update
		// of it, and must track from the start of that update: a first-sight
		// position at which no received update of the channel starts would
		// cover the very update that triggered tracking.
		if !s.w.received[name][pts] {
			simrt.Violate("C03", "C03.persist-ahead", "persist-ahead first-sight channel",
				"first sight of %s: position %d is made durable, but no update of that channel received so far starts there (received starts: %v): the saved position covers the update that triggered tracking before it was handed to the handler", name, pts, keys(s.w.received[name]))
		}
	}
	return s.op(fmt.Sprintf("SetChannelPts %s %d", name, pts), func() { s.chans[channelID] = pts }, func() {
		if known {
			s.w.persisting(name, pts)
		} else {
			s.w.durableBaseline(name, s.w.base[name])
		}
	})
}

func (s *store) ForEachChannels(ctx context.Context, userID int64, f func(ctx context.Context, channelID int64, pts int) error) error {
	var ids []int64
	for id := range s.chans {
		ids = append(ids, id)
	}
	sort.Slice(ids, func(i, j int) bool { return ids[i] < ids[j] })
	for _, id := range ids {
		if err := f(ctx, id, s.chans[id]); err != nil {
			return err
		}
	}
	return nil
}

type hashes struct {
	ch map[int64]int64
	us map[int64]int64
}

func (h *hashes) SetChannelAccessHash(ctx context.Context, userID, channelID, accessHash int64) error {
	h.ch[channelID] = accessHash
	return nil
}
func (h *hashes) GetChannelAccessHash(ctx context.Context, userID, channelID int64) (int64, bool, error) {
	v, ok := h.ch[channelID]
	return v, ok, nil
}
func (h *hashes) SetUserAccessHash(ctx context.Context, userID, targetUserID, accessHash int64) error {
	h.us[targetUserID] = accessHash
	return nil
}
func (h *hashes) GetUserAccessHash(ctx context.Context, userID, targetUserID int64) (int64, bool, error) {
	v, ok := h.us[targetUserID]
	return v, ok, nil
}

// ---- world ------------------------------------------------------------------------

type delivery struct {
	seq  uint64
	inc  int
	call int
}

type world struct {
	tape   *simrt.Tape
	srv    *server
	st     *store
	hs     *hashes
	prop   string
	quiet  bool
	inc    int // manager incarnation
	crashG int
	sim    *simrt.Sim

	delivered                   map[string][]delivery // identity -> deliveries
	covered                     map[string]int        // sequence -> highest position a fetched difference covered (this incarnation)
	base                        map[string]int        // sequence -> baseline of the current incarnation
	base0                       map[string]int        // sequence -> very first baseline
	exemptTo                    map[string]int        // sequence -> positions reported as too long up to here
	pendingTL                   map[string]int        // too-long differences handed out, not yet reported through the callback
	handles                     int
	crashHandle, crashHandlePos int
	crashed                     bool
	mgrCancel                   context.CancelFunc
	started                     map[*tdupdates.Manager]bool
	received                    map[string]map[int]bool // sequence -> start positions of updates handed to Manager.Handle
}

func (w *world) faultsOn() bool { return !w.quiet && w.srv.faultsOn }

func (w *world) crash(where string) {
	if w.crashed {
		return
	}
	w.crashed = true
	simrt.FaultFired("crash", "%s", where)
	simrt.CrashNow()
}

// baseline: the position a sequence is tracked from. base is what the running
// incarnation started from (in memory); base0 is the first baseline that
// became durable, i.e. what a restart can know about.
func (w *world) baseline(seq string, v int) {
	simrt.Ev("baseline", "%s=%d", seq, v)
	w.base[seq] = v
}

func (w *world) durableBaseline(seq string, v int) {
	if _, ok := w.base0[seq]; !ok {
		w.base0[seq] = v
	}
}

func (w *world) entries(seq string) []*entry {
	switch seq {
	case "pts":
		return w.srv.common
	case "qts":
		return w.srv.secret
	}
	for _, c := range w.srv.chans {
		if fmt.Sprintf("ch%d", c.id) == seq {
			return c.log
		}
	}
	return nil
}

// persisting is the C03 invariant, evaluated at every storage write that is
// about to succeed: the value made durable must not cover an undelivered
// update (unless reported as too long).
func (w *world) persisting(seq string, v int) {
	b0, ok := w.base0[seq]
	if !ok {
		return
	}
	for _, e := range w.entries(seq) {
		if e.end > v {
			break
		}
		if e.start < b0 || e.kind == "aff" || e.end <= w.exemptTo[seq] {
			continue
		}
		if len(w.delivered[e.id]) == 0 {
			simrt.Violate("C03", "C03.persist-ahead", fmt.Sprintf("persist-ahead %s %s", seqKind(seq), e.kind),
				"storage write makes %s=%d durable, but %s (%s, positions (%d,%d]) has not been handed to the handler and no too-long callback covers it", seq, v, e.id, e.kind, e.start, e.end)
			return
		}
	}
}

func keys(m map[int]bool) []int {
	var out []int
	for k := range m {
		out = append(out, k)
	}
	sort.Ints(out)
	return out
}

func seqKind(seq string) string {
	if len(seq) > 2 && seq[:2] == "ch" {
		return "channel"
	}
	return seq
}

// Handle is the recording update handler.
func (w *world) Handle(ctx context.Context, u tg.UpdatesClass) error {
	w.handles++
	call := w.handles
	if w.crashHandle == call && w.crashHandlePos == 0 {
		w.crash("before handler call")
	}
	ups, ok := u.(*tg.Updates)
	if !ok {
		simrt.Ev("handle", "unexpected container %T", u)
		return nil
	}
	var batch []*entry
	for _, up := range ups.Updates {
		id, ok := identify(up)
		if !ok {
			continue
		}
		e := w.srv.byID[id]
		if e == nil {
			simrt.Violate("C01", "C01.unknown-update", "unknown-update", "handler received %s, which the server never committed", id)
			continue
		}
		seq := simrt.Ev("handle", "%s (%s (%d,%d])", id, e.seqName, e.start, e.end)
		// at most once (per incarnation)
		for _, d := range w.delivered[id] {
			if d.inc == w.inc {
				simrt.Violate("C01", "C01.duplicate", fmt.Sprintf("duplicate %s %s", seqKind(e.seqName), e.kind),
					"%s (%s positions (%d,%d]) handed to the handler twice (first at event #%d)", id, e.seqName, e.start, e.end, d.seq)
			}
		}
		// in order: every earlier position delivered before (or earlier in this
		// batch) or covered by a fetched difference or below the baseline
		for _, f := range w.entries(e.seqName) {
			if f.end > e.start {
				break
			}
			if f.kind == "aff" || f.end <= w.base[e.seqName] || f.end <= w.covered[e.seqName] || f.end <= w.exemptTo[e.seqName] {
				continue
			}
			got := false
			for _, d := range w.delivered[f.id] {
				if d.inc == w.inc {
					got = true
				}
			}
			for _, b := range batch {
				if b == f {
					got = true
				}
			}
			if !got {
				simrt.Violate("C01", "C01.out-of-order", fmt.Sprintf("out-of-order %s", seqKind(e.seqName)),
					"%s at %s (%d,%d] was handed to the handler although the earlier %s at (%d,%d] was neither delivered nor covered by a fetched difference (covered up to %d, baseline %d)",
					id, e.seqName, e.start, e.end, f.id, f.start, f.end, w.covered[e.seqName], w.base[e.seqName])
				break
			}
		}
		batch = append(batch, e)
		w.delivered[id] = append(w.delivered[id], delivery{seq, w.inc, call})
	}
	if w.crashHandle == call && w.crashHandlePos == 1 {
		w.crash("after handler call")
	}
	return nil
}

func run(t *testing.T, tape *simrt.Tape, env dst.Env) *simrt.Outcome {
	if env.Prop == "C01" && tape.Coin(simrt.Cfg, 1, 3) {
		return runBox(t, tape, env)
	}
	w := &world{tape: tape, prop: env.Prop, delivered: map[string][]delivery{}, covered: map[string]int{}, base: map[string]int{}, base0: map[string]int{},
		exemptTo: map[string]int{}, pendingTL: map[string]int{}, started: map[*tdupdates.Manager]bool{}, received: map[string]map[int]bool{}}
	var finished bool
	out := simrt.Run(t, tape, simrt.Options{Policy: -1, MaxSteps: 400_000}, func(s *simrt.Sim) {
		w.sim = s
		w.main(env)
		finished = true
	})
	if out.HarnessErr != "" {
		return out
	}
	if out.Panic != "" {
		if out.PanicInRepo() {
			for _, p := range []string{"C01", "C02", "C03"} {
				out.AddViolation(p, p+".panic", "panic", "updates code panicked in task %s: %s", out.PanicTask, out.PanicLine())
			}
		} else {
			out.HarnessErr = "panic in world updates: " + out.Panic
		}
		return out
	}
	if !finished && !out.StepLimit {
		out.HarnessErr = fmt.Sprintf("world updates did not finish (stuck=%v %v)", out.Stuck, out.StuckTasks)
		return out
	}
	if out.StepLimit {
		return out
	}
	w.judgeEnd(out)
	return out
}

func (w *world) main(env dst.Env) {
	tape := w.tape
	srv := newServer(tape)
	w.srv = srv
	crashRun := env.Prop == "C03" || (env.Prop == "" && tape.Coin(simrt.Cfg, 1, 3))
	srv.faultsOn = tape.Coin(simrt.Cfg, 5, 6)
	if srv.faultsOn {
		simrt.Probe("cfg:faults-on")
	} else {
		simrt.Probe("cfg:fault-free")
	}
	nChan := tape.Choose(simrt.Cfg, 4)
	for i := 0; i < nChan; i++ {
		srv.addChannel(int64(1001 + i))
	}
	srv.slice = simrt.Pick(tape, simrt.Cfg, 0, 0, 1, 2, 3)
	srv.chanSlice = simrt.Pick(tape, simrt.Cfg, 0, 0, 1, 2)
	srv.tooLong = simrt.Pick(tape, simrt.Cfg, 0, 0, 0, 6)
	srv.chanTooLong = simrt.Pick(tape, simrt.Cfg, 0, 0, 0, 5)
	srv.apiLatency = []time.Duration{0, 0, 50 * time.Millisecond, 200 * time.Millisecond}
	srv.apiErrDen = simrt.Pick(tape, simrt.Cfg, 0, 0, 6, 12)
	srv.chanTimeout = tape.Coin(simrt.Cfg, 1, 4)
	srv.passengerDen = simrt.Pick(tape, simrt.Cfg, 0, 0, 3)
	srv.onPassenger = func(e *entry) {
		if w.received[e.seqName] == nil {
			w.received[e.seqName] = map[int]bool{}
		}
		w.received[e.seqName][e.start] = true
	}
	lossDen := simrt.Pick(tape, simrt.Cfg, 0, 2, 4, 8) // 1/lossDen of the pushes are lost
	dupDen := simrt.Pick(tape, simrt.Cfg, 0, 4, 8)
	if !srv.faultsOn {
		srv.slice, srv.chanSlice, srv.tooLong, srv.chanTooLong, srv.apiErrDen, lossDen, dupDen = 0, 0, 0, 0, 0, 0, 0
	}
	srv.onCovered = func(seq string, upTo int, tooLong bool) {
		if upTo > w.covered[seq] {
			w.covered[seq] = upTo
		}
		if tooLong {
			w.pendingTL[seq] = upTo
		}
	}
	w.st = &store{w: w, chans: map[int64]int{}, failDen: simrt.Pick(tape, simrt.Cfg, 0, 0, 10)}
	w.hs = &hashes{ch: map[int64]int64{}, us: map[int64]int64{}}
	// some history exists before the client first starts
	for n := tape.Choose(simrt.Wl, 4); n > 0; n-- {
		srv.commitCommon("msg", 1)
	}
	startStored := tape.Coin(simrt.Cfg, 1, 2)
	if startStored {
		// the client has run before: its stored state is the current server state
		w.st.st, w.st.has = tdupdates.State{Pts: srv.p, Qts: srv.q, Date: srv.date, Seq: srv.seq}, true
		w.baseline("pts", srv.p)
		w.baseline("qts", srv.q)
		w.durableBaseline("pts", srv.p)
		w.durableBaseline("qts", srv.q)
	}
	if crashRun {
		switch tape.Choose(simrt.Fault, 3) {
		case 0:
			w.st.crashAt, w.st.crashPos = 1+tape.Choose(simrt.Fault, 24), tape.Choose(simrt.Fault, 2)
		case 1:
			w.crashHandle, w.crashHandlePos = 1+tape.Choose(simrt.Fault, 12), tape.Choose(simrt.Fault, 2)
		}
	}

	var mgr *tdupdates.Manager
	startManager := func() {
		w.inc++
		w.covered = map[string]int{}
		w.pendingTL = map[string]int{}
		w.base = map[string]int{} // a new incarnation knows only what is durable
		if w.st.has {
			w.base["pts"], w.base["qts"] = w.st.st.Pts, w.st.st.Qts
		}
		for id, v := range w.st.chans {
			w.base[fmt.Sprintf("ch%d", id)] = v
		}
		m := tdupdates.New(tdupdates.Config{
			Handler:          w,
			Storage:          w.st,
			AccessHasher:     w.hs,
			UserAccessHasher: w.hs,
			OnTooLong: func() {
				simrt.Ev("callback", "OnTooLong (pending %d)", w.pendingTL["pts"])
				if v, ok := w.pendingTL["pts"]; ok && v > w.exemptTo["pts"] {
					w.exemptTo["pts"] = v
				}
			},
			OnChannelTooLong: func(channelID int64) {
				name := fmt.Sprintf("ch%d", channelID)
				simrt.Ev("callback", "OnChannelTooLong %s", name)
				// everything the server holds for that channel right now is reported as a gap
				if c := srv.chans[channelID]; c != nil && c.p > w.exemptTo[name] {
					w.exemptTo[name] = c.p
				}
			},
		})
		mgr = m
		ctx, cancel := context.WithCancel(context.Background())
		w.mgrCancel = cancel
		g := w.sim.NewGroup()
		w.crashG = g
		inc := w.inc
		simrt.GoIn(g, fmt.Sprintf("manager%d", inc), func() {
			err := m.Run(ctx, srv, selfID, tdupdates.AuthOptions{OnStart: func(context.Context) {
				// from here on the manager tracks the sequences; before that it
				// passes updates straight through by design
				w.started[m] = true
				simrt.Ev("manager-started", "inc=%d", inc)
			}})
			simrt.Ev("manager-exit", "inc=%d err=%v", inc, err)
		})
	}
	startManager()
	if crashRun && w.st.crashAt == 0 && w.crashHandle == 0 {
		// crash at an arbitrary yield of the manager's tasks
		n := 1 + tape.Choose(simrt.Fault, 4000)
		w.sim.CrashAfterYields(w.crashG, n, func() {
			w.crashed = true
			simrt.FaultFired("crash", "at yield %d of the manager", n)
		})
	}

	push := func(u tg.UpdatesClass, what string, es ...*entry) {
		if lossDen > 0 && !w.quiet && tape.Coin(simrt.Net, 1, lossDen) {
			simrt.FaultFired("push-lost", "%s", what)
			return
		}
		copies := 1
		if dupDen > 0 && !w.quiet && tape.Coin(simrt.Net, 1, dupDen) {
			copies = 2
			simrt.FaultFired("push-dup", "%s", what)
		}
		for i := 0; i < copies; i++ {
			d := simrt.Pick(tape, simrt.Net, 0, 0, 100*time.Millisecond, 300*time.Millisecond, 700*time.Millisecond, 2*time.Second)
			if !srv.faultsOn {
				d = 0
			}
			m := mgr
			simrt.Go("push", func() {
				simrt.Sleep(0, d)
				if !simrt.WaitUntil(50*time.Millisecond, 20*time.Second, func() bool { return w.started[m] }) {
					return // that incarnation never came up (crashed while starting)
				}
				ctx, cancel := context.WithTimeout(context.Background(), time.Second)
				defer cancel()
				simrt.Ev("push", "%s", what)
				for _, e := range es {
					if w.received[e.seqName] == nil {
						w.received[e.seqName] = map[int]bool{}
					}
					w.received[e.seqName][e.start] = true
				}
				_ = m.Handle(ctx, u)
			})
		}
	}
	wrap := func(es []*entry) {
		var ups []tg.UpdateClass
		var chatIDs []int64
		what := ""
		for _, e := range es {
			ups = append(ups, srv.update(e))
			if e.channel != 0 {
				chatIDs = append(chatIDs, e.channel)
			}
			what += e.id + " "
		}
		users := srv.users()
		kind := tape.Choose(simrt.Wl, 6)
		if len(es) == 1 && es[0].kind == "msg" && kind == 5 && srv.faultsOn {
			// sender the client has no access hash for, and no user object: the
			// library must recover through a difference, not lose the message
			simrt.FaultFired("push-unknown-sender", "%s", what)
			m := srv.message(es[0])
			m.SetFromID(&tg.PeerUser{UserID: 78})
			push(&tg.Updates{Updates: []tg.UpdateClass{&tg.UpdateNewMessage{Message: m, Pts: es[0].end, PtsCount: 1}}, Date: srv.date}, what+"(unknown sender)", es...)
			return
		}
		switch {
		case len(es) == 1 && kind == 0:
			push(&tg.UpdateShort{Update: ups[0], Date: srv.date}, what+"(short)", es...)
		case kind <= 2:
			srv.seq++
			push(&tg.Updates{Updates: ups, Users: users, Chats: srv.chats(chatIDs...), Date: srv.date, Seq: srv.seq}, fmt.Sprintf("%s(seq %d)", what, srv.seq), es...)
		case kind == 3:
			start := srv.seq + 1
			srv.seq += 1 + tape.Choose(simrt.Wl, 2)
			push(&tg.UpdatesCombined{Updates: ups, Users: users, Chats: srv.chats(chatIDs...), Date: srv.date, SeqStart: start, Seq: srv.seq}, fmt.Sprintf("%s(seq %d..%d)", what, start, srv.seq), es...)
		default:
			push(&tg.Updates{Updates: ups, Users: users, Chats: srv.chats(chatIDs...), Date: srv.date}, what+"(seq 0)", es...)
		}
	}

	// fault phase: the server commits updates and pushes them
	nEvents := tape.Range(simrt.Wl, 3, 14)
	restarted := false
	restart := func() {
		if restarted || !w.crashed {
			return
		}
		restarted = true
		w.mgrCancel()
		simrt.Ev("restart", "from stored pts=%d qts=%d channels=%v", w.st.st.Pts, w.st.st.Qts, w.st.chans)
		w.st.crashAt, w.crashHandle = 0, 0
		startManager()
	}
	for i := 0; i < nEvents; i++ {
		simrt.Sleep(0, simrt.Pick(tape, simrt.Wl, 0, 50*time.Millisecond, 200*time.Millisecond, 600*time.Millisecond, 3*time.Second))
		if w.crashed && !restarted && tape.Coin(simrt.Wl, 1, 2) {
			restart()
		}
		var batch []*entry
		for k := 1 + tape.Choose(simrt.Wl, 3)/2; k > 0; k-- {
			switch c := tape.Choose(simrt.Wl, 10); {
			case c < 3:
				batch = append(batch, srv.commitCommon("msg", 1))
			case c == 3:
				batch = append(batch, srv.commitCommon("del", 1+tape.Choose(simrt.Wl, 2)))
			case c == 4:
				batch = append(batch, srv.commitCommon(simrt.Pick(tape, simrt.Wl, "read", "edit"), 1))
			case c == 5:
				e := srv.commitCommon("aff", 1+tape.Choose(simrt.Wl, 2))
				m := mgr
				if !(lossDen > 0 && tape.Coin(simrt.Net, 1, lossDen)) {
					simrt.Go("affected", func() {
						if !simrt.WaitUntil(50*time.Millisecond, 20*time.Second, func() bool { return w.started[m] }) {
							return
						}
						ctx, cancel := context.WithTimeout(context.Background(), time.Second)
						defer cancel()
						_ = m.HandleAffected(ctx, 0, e.end, e.count())
					})
				}
				if srv.faultsOn && tape.Coin(simrt.Wl, 1, 2) {
					// an affected-pts report for a channel the client does not
					// track (e.g. the answer of an API call about a channel it
					// never got updates for); its pts values are unrelated to the
					// common sequence but may collide with it numerically
					k := 1 + tape.Choose(simrt.Wl, 2)
					pts := srv.p + k
					if tape.Coin(simrt.Wl, 1, 3) {
						pts = 1 + tape.Choose(simrt.Wl, 30)
					}
					simrt.FaultFired("affected-untracked-channel", "channel 4242 pts=%d count=%d", pts, k)
					simrt.Go("affected-decoy", func() {
						if !simrt.WaitUntil(50*time.Millisecond, 20*time.Second, func() bool { return w.started[m] }) {
							return
						}
						ctx, cancel := context.WithTimeout(context.Background(), time.Second)
						defer cancel()
						_ = m.HandleAffected(ctx, 4242, pts, k)
					})
				}
			case c == 6:
				batch = append(batch, srv.commitSecret())
			default:
				if len(srv.chanIDs) == 0 {
					batch = append(batch, srv.commitCommon("msg", 1))
					break
				}
				cid := srv.chanIDs[tape.Choose(simrt.Wl, len(srv.chanIDs))]
				switch tape.Choose(simrt.Wl, 4) {
				case 0:
					batch = append(batch, srv.commitChannel(cid, "chdel", 1+tape.Choose(simrt.Wl, 2)))
				case 1:
					batch = append(batch, srv.commitChannel(cid, "chedit", 1))
				default:
					batch = append(batch, srv.commitChannel(cid, "chmsg", 1))
				}
			}
		}
		if len(batch) == 0 {
			continue
		}
		if len(batch) > 1 && tape.Coin(simrt.Wl, 1, 2) {
			wrap(batch)
		} else {
			for _, e := range batch {
				wrap([]*entry{e})
			}
		}
		if srv.faultsOn && tape.Coin(simrt.Wl, 1, 5) {
			// a notice that occupies no position but names the current one
			// (pts_count = 0): ahead of a client that missed pushes it must open
			// a gap, never move the position
			if len(srv.chanIDs) > 0 && tape.Coin(simrt.Wl, 1, 2) {
				c := srv.chans[srv.chanIDs[tape.Choose(simrt.Wl, len(srv.chanIDs))]]
				if c.p > 0 {
					simrt.FaultFired("zero-count-notice", "ch%d pts=%d", c.id, c.p)
					push(&tg.Updates{Updates: []tg.UpdateClass{&tg.UpdateReadChannelInbox{ChannelID: c.id, MaxID: 1, Pts: c.p}}, Users: srv.users(), Chats: srv.chats(c.id), Date: srv.date},
						fmt.Sprintf("zero-count notice ch%d pts=%d", c.id, c.p),
						// for a channel seen for the first time, the notice's position is where tracking starts
						&entry{seqName: fmt.Sprintf("ch%d", c.id), start: c.p, end: c.p})
				}
			} else if srv.p > 0 {
				simrt.FaultFired("zero-count-notice", "pts=%d", srv.p)
				push(&tg.UpdateShort{Update: &tg.UpdateWebPage{Webpage: &tg.WebPageEmpty{ID: int64(srv.p)}, Pts: srv.p, PtsCount: 0}, Date: srv.date}, fmt.Sprintf("zero-count notice pts=%d", srv.p))
			}
		}
		if srv.faultsOn && tape.Coin(simrt.Wl, 1, 12) {
			simrt.FaultFired("push-updates-too-long", "")
			push(&tg.UpdatesTooLong{}, "updatesTooLong")
		}
	}
	// quiet phase: faults stop. Restart a crashed client, let the pending pushes
	// land, then wait two idle periods: the idle timers alone guarantee a
	// difference fetch for the common state and for every tracked channel.
	simrt.Sleep(0, 3*time.Second)
	w.quiet = true
	srv.faultsOn = false
	simrt.Ev("quiet", "faults stop; server pts=%d qts=%d", srv.p, srv.q)
	restart()
	if tape.Coin(simrt.Wl, 1, 3) {
		push(&tg.UpdatesTooLong{}, "updatesTooLong (explicit recovery signal)")
	}
	quietFor := 2*15*time.Minute + 2*time.Minute
	for until := simrt.Now() + quietFor; simrt.Now() < until; {
		simrt.Sleep(0, 10*time.Second)
		if w.crashed && !restarted {
			// the crash point was reached during recovery: restart and give
			// the new incarnation its own two idle periods
			restart()
			until = simrt.Now() + quietFor
		}
	}
	simrt.Ev("end", "")
	w.mgrCancel()
	simrt.Sleep(0, time.Second)
}

func (w *world) judgeEnd(o *simrt.Outcome) {
	crashRun := w.crashed
	bases := w.base // a run without a crash: what the single incarnation tracked (in memory)
	if crashRun {
		bases = w.base0 // across a crash only durable tracking counts
	}
	var seqs []string
	for s := range bases {
		seqs = append(seqs, s)
	}
	sort.Strings(seqs)
	for _, seq := range seqs {
		for _, e := range w.entries(seq) {
			if e.kind == "aff" || e.start < bases[seq] || e.end <= w.exemptTo[seq] {
				continue
			}
			if len(w.delivered[e.id]) > 0 {
				continue
			}
			carried := "pushed or in a difference's new messages"
			if e.kind != "msg" && e.kind != "chmsg" && e.kind != "enc" {
				carried = "carried in a difference's other updates when not pushed"
			}
			if crashRun {
				o.AddViolation("C03", "C03.lost-after-crash", fmt.Sprintf("lost-after-crash %s %s", seqKind(seq), e.kind),
					"after a crash, a restart from the saved state and recovery, %s (%s (%d,%d], %s) was never handed to the handler in either run", e.id, seq, e.start, e.end, carried)
			} else {
				o.AddViolation("C02", "C02.lost", fmt.Sprintf("lost %s %s", seqKind(seq), e.kind),
					"%s (%s (%d,%d], %s) was never handed to the handler although faults stopped and two idle periods passed (baseline %d)", e.id, seq, e.start, e.end, carried, bases[seq])
			}
		}
	}
}
