package updates

import (
	"context"
	"errors"
	"fmt"
	"sort"
	"time"

	"github.com/gotd/td/tg"
	"github.com/gotd/td/tgerr"

	"verif/simrt"
)

// entry is one atomic element of a server-side update log: it covers the
// positions (start, end] of its sequence.
type entry struct {
	seqName  string // "pts", "qts", "ch<id>"
	channel  int64
	kind     string // msg del read edit aff | enc | chmsg chdel chedit
	start    int
	end      int
	id       string // identity, recoverable from what the handler receives
	msgID    int
	ids      []int
	editDate int
	random   int64
	date     int
	commitT  time.Duration
	seqNo    int // value of the container sequence when it was pushed with one
}

func (e *entry) count() int { return e.end - e.start }

type chanLog struct {
	id   int64
	hash int64
	log  []*entry
	p    int
}

// server is the model Telegram server (DESIGN appendix D).
type server struct {
	tape    *simrt.Tape
	date    int
	seq     int
	common  []*entry
	p       int
	secret  []*entry
	q       int
	chans   map[int64]*chanLog
	chanIDs []int64
	byID    map[string]*entry
	nextMsg int
	nextRnd int64

	// behaviour knobs drawn per run
	slice       int // max common entries per difference (0: whole)
	chanSlice   int // max channel entries per channel difference (0: whole)
	tooLong     int // differenceTooLong threshold in positions (0: off)
	chanTooLong int
	apiLatency  []time.Duration
	apiErrDen   int // 1/apiErrDen calls fail while faults are on
	faultsOn    bool
	chanTimeout bool
	// passengerDen > 0: 1/passengerDen channel differences carry an update of
	// another channel in their other_updates (while faults are on)
	passengerDen int
	onPassenger  func(e *entry)

	// observation for the oracles: what each difference handed to the library
	onCovered func(seqName string, upTo int, tooLong bool)
}

func newServer(tape *simrt.Tape) *server {
	s := &server{tape: tape, date: 1_000_000, chans: map[int64]*chanLog{}, byID: map[string]*entry{}, nextMsg: 100, nextRnd: 5000}
	return s
}

func (s *server) addChannel(id int64) {
	s.chans[id] = &chanLog{id: id, hash: id * 7}
	s.chanIDs = append(s.chanIDs, id)
}

var theUser = &tg.User{ID: 77, AccessHash: 5, FirstName: "peer"}

func (s *server) users() []tg.UserClass { return []tg.UserClass{theUser} }

func (s *server) chat(c *chanLog) tg.ChatClass {
	ch := &tg.Channel{ID: c.id, Title: fmt.Sprintf("channel %d", c.id)}
	ch.SetAccessHash(c.hash)
	return ch
}

func (s *server) chats(ids ...int64) []tg.ChatClass {
	var out []tg.ChatClass
	for _, id := range ids {
		out = append(out, s.chat(s.chans[id]))
	}
	return out
}

// ---- committing ---------------------------------------------------------------

func (s *server) commitCommon(kind string, count int) *entry {
	s.date++
	e := &entry{seqName: "pts", kind: kind, start: s.p, end: s.p + count, date: s.date, commitT: simrt.Now()}
	s.p = e.end
	switch kind {
	case "msg":
		s.nextMsg++
		e.msgID = s.nextMsg
		e.id = fmt.Sprintf("m:%d", e.msgID)
	case "del":
		for i := 0; i < count; i++ {
			s.nextMsg++
			e.ids = append(e.ids, s.nextMsg)
		}
		e.id = fmt.Sprintf("d:%v", e.ids)
	case "read":
		s.nextMsg++
		e.msgID = s.nextMsg
		e.id = fmt.Sprintf("r:%d", e.msgID)
	case "edit":
		s.nextMsg++
		e.msgID, e.editDate = s.nextMsg, s.date
		e.id = fmt.Sprintf("e:%d:%d", e.msgID, e.editDate)
	case "aff":
		e.id = fmt.Sprintf("aff:%d", e.end)
	}
	s.common = append(s.common, e)
	s.byID[e.id] = e
	simrt.Ev("commit", "pts (%d,%d] %s %s", e.start, e.end, kind, e.id)
	return e
}

func (s *server) commitSecret() *entry {
	s.date++
	s.nextRnd++
	e := &entry{seqName: "qts", kind: "enc", start: s.q, end: s.q + 1, random: s.nextRnd, date: s.date, commitT: simrt.Now()}
	e.id = fmt.Sprintf("q:%d", e.random)
	s.q = e.end
	s.secret = append(s.secret, e)
	s.byID[e.id] = e
	simrt.Ev("commit", "qts (%d,%d] %s", e.start, e.end, e.id)
	return e
}

func (s *server) commitChannel(cid int64, kind string, count int) *entry {
	c := s.chans[cid]
	s.date++
	e := &entry{seqName: fmt.Sprintf("ch%d", cid), channel: cid, kind: kind, start: c.p, end: c.p + count, date: s.date, commitT: simrt.Now()}
	c.p = e.end
	switch kind {
	case "chmsg":
		s.nextMsg++
		e.msgID = s.nextMsg
		e.id = fmt.Sprintf("c%d:m:%d", cid, e.msgID)
	case "chdel":
		for i := 0; i < count; i++ {
			s.nextMsg++
			e.ids = append(e.ids, s.nextMsg)
		}
		e.id = fmt.Sprintf("c%d:d:%v", cid, e.ids)
	case "chedit":
		s.nextMsg++
		e.msgID, e.editDate = s.nextMsg, s.date
		e.id = fmt.Sprintf("c%d:e:%d:%d", cid, e.msgID, e.editDate)
	}
	c.log = append(c.log, e)
	s.byID[e.id] = e
	simrt.Ev("commit", "%s (%d,%d] %s %s", e.seqName, e.start, e.end, kind, e.id)
	return e
}

// ---- TL construction ------------------------------------------------------------

func (s *server) message(e *entry) *tg.Message {
	m := &tg.Message{ID: e.msgID, Date: e.date, Message: e.id}
	if e.channel != 0 {
		m.PeerID = &tg.PeerChannel{ChannelID: e.channel}
	} else {
		m.PeerID = &tg.PeerUser{UserID: theUser.ID}
	}
	m.SetFromID(&tg.PeerUser{UserID: theUser.ID})
	if e.editDate != 0 {
		m.SetEditDate(e.editDate)
	}
	return m
}

// update is the pushed form of an entry (with its real pts/qts).
func (s *server) update(e *entry) tg.UpdateClass {
	switch e.kind {
	case "msg":
		return &tg.UpdateNewMessage{Message: s.message(e), Pts: e.end, PtsCount: e.count()}
	case "del":
		return &tg.UpdateDeleteMessages{Messages: e.ids, Pts: e.end, PtsCount: e.count()}
	case "read":
		return &tg.UpdateReadHistoryInbox{Peer: &tg.PeerUser{UserID: theUser.ID}, MaxID: e.msgID, Pts: e.end, PtsCount: e.count()}
	case "edit":
		return &tg.UpdateEditMessage{Message: s.message(e), Pts: e.end, PtsCount: e.count()}
	case "enc":
		return &tg.UpdateNewEncryptedMessage{Message: &tg.EncryptedMessage{RandomID: e.random, ChatID: 9, Date: e.date, Bytes: []byte{1}}, Qts: e.end}
	case "chmsg":
		return &tg.UpdateNewChannelMessage{Message: s.message(e), Pts: e.end, PtsCount: e.count()}
	case "chdel":
		return &tg.UpdateDeleteChannelMessages{ChannelID: e.channel, Messages: e.ids, Pts: e.end, PtsCount: e.count()}
	case "chedit":
		return &tg.UpdateEditChannelMessage{Message: s.message(e), Pts: e.end, PtsCount: e.count()}
	}
	panic("no update for " + e.kind)
}

// identify recovers entry identities from what the handler was given.
func identify(u tg.UpdateClass) (string, bool) {
	msgID := func(m tg.MessageClass) (int, int64, int) {
		if mm, ok := m.(*tg.Message); ok {
			var ch int64
			if pc, ok := mm.PeerID.(*tg.PeerChannel); ok {
				ch = pc.ChannelID
			}
			ed, _ := mm.GetEditDate()
			return mm.ID, ch, ed
		}
		return 0, 0, 0
	}
	switch x := u.(type) {
	case *tg.UpdateNewMessage:
		id, _, _ := msgID(x.Message)
		return fmt.Sprintf("m:%d", id), true
	case *tg.UpdateDeleteMessages:
		return fmt.Sprintf("d:%v", x.Messages), true
	case *tg.UpdateReadHistoryInbox:
		return fmt.Sprintf("r:%d", x.MaxID), true
	case *tg.UpdateEditMessage:
		id, _, ed := msgID(x.Message)
		return fmt.Sprintf("e:%d:%d", id, ed), true
	case *tg.UpdateNewEncryptedMessage:
		if m, ok := x.Message.(*tg.EncryptedMessage); ok {
			return fmt.Sprintf("q:%d", m.RandomID), true
		}
	case *tg.UpdateNewChannelMessage:
		id, ch, _ := msgID(x.Message)
		return fmt.Sprintf("c%d:m:%d", ch, id), true
	case *tg.UpdateDeleteChannelMessages:
		return fmt.Sprintf("c%d:d:%v", x.ChannelID, x.Messages), true
	case *tg.UpdateEditChannelMessage:
		id, ch, ed := msgID(x.Message)
		return fmt.Sprintf("c%d:e:%d:%d", ch, id, ed), true
	}
	return "", false
}

// ---- updates.API ----------------------------------------------------------------

var errAPI = tgerr.New(500, "INTERNAL_SIMULATED")

func (s *server) call(ctx context.Context, name string) error {
	d := s.apiLatency[s.tape.Choose(simrt.Net, len(s.apiLatency))]
	if d > 0 {
		t := time.NewTimer(d)
		i, _, _ := simrt.Select(0, false, simrt.SelRecv(ctx.Done()), simrt.SelRecv(t.C))
		t.Stop()
		if i == 0 {
			return ctx.Err()
		}
	}
	if s.faultsOn && s.apiErrDen > 0 && s.tape.Coin(simrt.Fault, 1, s.apiErrDen) {
		simrt.FaultFired("api-error", "%s", name)
		return errAPI
	}
	return ctx.Err()
}

func (s *server) UpdatesGetState(ctx context.Context) (*tg.UpdatesState, error) {
	if err := s.call(ctx, "getState"); err != nil {
		return nil, err
	}
	simrt.Ev("api", "getState -> pts=%d qts=%d seq=%d", s.p, s.q, s.seq)
	return &tg.UpdatesState{Pts: s.p, Qts: s.q, Date: s.date, Seq: s.seq}, nil
}

func (s *server) UpdatesGetDifference(ctx context.Context, r *tg.UpdatesGetDifferenceRequest) (tg.UpdatesDifferenceClass, error) {
	if err := s.call(ctx, "getDifference"); err != nil {
		return nil, err
	}
	var com, sec []*entry
	for _, e := range s.common {
		if e.end > r.Pts {
			com = append(com, e)
		}
	}
	for _, e := range s.secret {
		if e.end > r.Qts {
			sec = append(sec, e)
		}
	}
	// channels that changed since the state the client asks from
	since := time.Duration(-1)
	for _, e := range s.common {
		if e.end <= r.Pts && e.commitT > since {
			since = e.commitT
		}
	}
	var other []tg.UpdateClass
	var chatIDs []int64
	for _, cid := range s.chanIDs {
		c := s.chans[cid]
		changed := false
		for _, e := range c.log {
			if e.commitT >= since {
				changed = true
			}
		}
		if changed {
			tl := &tg.UpdateChannelTooLong{ChannelID: cid}
			tl.SetPts(c.p)
			other = append(other, tl)
			chatIDs = append(chatIDs, cid)
		}
	}
	if len(com) == 0 && len(sec) == 0 && len(other) == 0 {
		simrt.Ev("api", "getDifference(pts=%d qts=%d) -> empty seq=%d", r.Pts, r.Qts, s.seq)
		return &tg.UpdatesDifferenceEmpty{Date: s.date, Seq: s.seq}, nil
	}
	if s.tooLong > 0 && s.p-r.Pts > s.tooLong {
		simrt.FaultFired("difference-too-long", "pts=%d -> %d", r.Pts, s.p)
		simrt.Ev("api", "getDifference(pts=%d) -> tooLong pts=%d", r.Pts, s.p)
		if s.onCovered != nil {
			s.onCovered("pts", s.p, true)
		}
		return &tg.UpdatesDifferenceTooLong{Pts: s.p}, nil
	}
	sliced := false
	if s.slice > 0 && len(com) > s.slice {
		com = com[:s.slice]
		sliced = true
	}
	var msgs []tg.MessageClass
	for _, e := range com {
		switch e.kind {
		case "msg":
			msgs = append(msgs, s.message(e))
		case "aff":
		default:
			other = append([]tg.UpdateClass{s.update(e)}, other...)
		}
	}
	// other_updates in log order (pts-bearing first, channel notices last)
	sort.SliceStable(other, func(i, j int) bool {
		pi, _, oki := tg.IsPtsUpdate(other[i])
		pj, _, okj := tg.IsPtsUpdate(other[j])
		if oki && okj {
			return pi < pj
		}
		return oki && !okj
	})
	var enc []tg.EncryptedMessageClass
	for _, e := range sec {
		enc = append(enc, &tg.EncryptedMessage{RandomID: e.random, ChatID: 9, Date: e.date, Bytes: []byte{1}})
	}
	st := tg.UpdatesState{Pts: s.p, Qts: s.q, Date: s.date, Seq: s.seq}
	if len(com) > 0 && sliced {
		st.Pts = com[len(com)-1].end
	}
	if s.onCovered != nil {
		s.onCovered("pts", st.Pts, false)
		s.onCovered("qts", st.Qts, false)
	}
	simrt.Ev("api", "getDifference(pts=%d qts=%d) -> msgs=%d other=%d enc=%d state.pts=%d sliced=%v", r.Pts, r.Qts, len(msgs), len(other), len(enc), st.Pts, sliced)
	if sliced {
		simrt.Probe("difference-slice")
		return &tg.UpdatesDifferenceSlice{NewMessages: msgs, NewEncryptedMessages: enc, OtherUpdates: other, Users: s.users(), Chats: s.chats(chatIDs...), IntermediateState: st}, nil
	}
	return &tg.UpdatesDifference{NewMessages: msgs, NewEncryptedMessages: enc, OtherUpdates: other, Users: s.users(), Chats: s.chats(chatIDs...), State: st}, nil
}

func (s *server) UpdatesGetChannelDifference(ctx context.Context, r *tg.UpdatesGetChannelDifferenceRequest) (tg.UpdatesChannelDifferenceClass, error) {
	if err := s.call(ctx, "getChannelDifference"); err != nil {
		return nil, err
	}
	in, ok := r.Channel.(*tg.InputChannel)
	if !ok {
		return nil, errors.New("bad channel")
	}
	c := s.chans[in.ChannelID]
	if c == nil || in.AccessHash != c.hash {
		return nil, tgerr.New(400, "CHANNEL_INVALID")
	}
	var es []*entry
	for _, e := range c.log {
		if e.end > r.Pts {
			es = append(es, e)
		}
	}
	name := fmt.Sprintf("ch%d", c.id)
	timeout := 0
	if s.chanTimeout && s.tape.Coin(simrt.Net, 1, 3) {
		timeout = 1 + s.tape.Choose(simrt.Net, 3)
	}
	if len(es) == 0 {
		simrt.Ev("api", "getChannelDifference(%s pts=%d) -> empty pts=%d", name, r.Pts, c.p)
		if s.onCovered != nil {
			s.onCovered(name, c.p, false)
		}
		d := &tg.UpdatesChannelDifferenceEmpty{Final: true, Pts: c.p}
		if timeout > 0 {
			d.SetTimeout(timeout)
		}
		return d, nil
	}
	if s.chanTooLong > 0 && c.p-r.Pts > s.chanTooLong {
		simrt.FaultFired("channel-difference-too-long", "%s pts=%d -> %d", name, r.Pts, c.p)
		if s.onCovered != nil {
			s.onCovered(name, c.p, true)
		}
		dlg := &tg.Dialog{Peer: &tg.PeerChannel{ChannelID: c.id}}
		dlg.SetPts(c.p)
		return &tg.UpdatesChannelDifferenceTooLong{Final: true, Dialog: dlg, Chats: s.chats(c.id), Users: s.users()}, nil
	}
	final := true
	if s.chanSlice > 0 && len(es) > s.chanSlice {
		es = es[:s.chanSlice]
		final = false
	}
	var msgs []tg.MessageClass
	var other []tg.UpdateClass
	for _, e := range es {
		if e.kind == "chmsg" {
			msgs = append(msgs, s.message(e))
		} else {
			other = append(other, s.update(e))
		}
	}
	pts := es[len(es)-1].end
	if s.onCovered != nil {
		s.onCovered(name, pts, false)
	}
	if s.faultsOn && s.passengerDen > 0 && len(s.chanIDs) > 1 && s.tape.Coin(simrt.Fault, 1, s.passengerDen) {
		// a passenger: an update of another channel rides in this channel's
		// other_updates; it belongs to that channel's own sequence
		b := s.chans[s.chanIDs[s.tape.Choose(simrt.Fault, len(s.chanIDs))]]
		if b.id != c.id && len(b.log) > 0 {
			e := b.log[len(b.log)-1-s.tape.Choose(simrt.Fault, min(3, len(b.log)))]
			simrt.FaultFired("foreign-channel-passenger", "%s in the difference of %s", e.id, name)
			if s.onPassenger != nil {
				s.onPassenger(e)
			}
			other = append(other, s.update(e))
		}
	}
	simrt.Ev("api", "getChannelDifference(%s pts=%d) -> msgs=%d other=%d pts=%d final=%v", name, r.Pts, len(msgs), len(other), pts, final)
	d := &tg.UpdatesChannelDifference{Final: final, Pts: pts, NewMessages: msgs, OtherUpdates: other, Chats: s.chats(c.id), Users: s.users()}
	if timeout > 0 {
		d.SetTimeout(timeout)
	}
	return d, nil
}
