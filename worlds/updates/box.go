package updates

import (
	"context"
	"fmt"
	"testing"
	"time"

	tdupdates "github.com/gotd/td/telegram/updates"

	"verif/dst"
	"verif/simrt"
)

// runBox drives the real sequenceBox (through the overlay export) with an
// arbitrary delivery history of a server log: loss, duplication, reordering
// and overlapping partitions of the same positions. The harness plays the
// part of state.go: on the gap timer (or at tape-chosen moments) it performs a
// "difference": clears gaps and sets the state to a position the model server
// holds. Oracle: reference position model.
func runBox(t *testing.T, tape *simrt.Tape, env dst.Env) *simrt.Outcome {
	type upd struct {
		start, end int
		id         string
	}
	out := simrt.Run(t, tape, simrt.Options{Policy: 0}, func(s *simrt.Sim) {
		initial := tape.Choose(simrt.Wl, 5)
		n := initial + tape.Range(simrt.Wl, 2, 24)
		// two partitions of the positions (initial, n] into atomic updates of 1..3
		var parts [2][]upd
		for p := 0; p < 2; p++ {
			for pos := initial; pos < n; {
				c := 1 + tape.Choose(simrt.Wl, 3)
				if pos+c > n {
					c = n - pos
				}
				parts[p] = append(parts[p], upd{pos, pos + c, fmt.Sprintf("p%d:(%d,%d]", p, pos, pos+c)})
				pos += c
			}
		}
		overlap := tape.Coin(simrt.Cfg, 1, 3)
		simrt.Ev("config", "initial=%d n=%d overlap=%v", initial, n, overlap)
		pos := initial // reference model of the locally tracked position
		applied := map[string]bool{}
		applying := false
		box := tdupdates.VerifNewBox(initial, func(ctx context.Context, state int, ups []tdupdates.VerifUpdate) error {
			applying = true
			for _, u := range ups {
				id, _ := u.Value.(string)
				start := u.State - u.Count
				simrt.Ev("apply", "%s (%d,%d] model=%d", id, start, u.State, pos)
				if u.State == 0 || u.Count <= 0 {
					continue // exempt by the statement
				}
				if applied[id] {
					simrt.Violate("C01", "C01.box-duplicate", "box-duplicate", "update %s applied twice", id)
				}
				if start != pos {
					rule := "box-gap"
					if start < pos {
						rule = "box-overlap"
					}
					simrt.Violate("C01", "C01."+rule, rule, "update %s covering (%d,%d] applied while the delivered position is %d", id, start, u.State, pos)
				}
				applied[id] = true
				pos = u.State
			}
			if state != pos {
				simrt.Violate("C01", "C01.box-state", "box-state", "apply callback announces state %d after delivering up to %d", state, pos)
			}
			return nil
		})
		difference := func(why string) {
			box.ClearGaps()
			to := box.State()
			if n > to {
				to += tape.Choose(simrt.Wl, n-to+1)
			}
			simrt.Ev("difference", "%s: state %d -> %d", why, box.State(), to)
			box.SetState(to)
			if to > pos {
				pos = to
			}
		}
		check := func(when string) {
			if box.State() != pos {
				simrt.Violate("C01", "C01.box-position", "box-position", "%s: the box tracks position %d, but updates were delivered in order (or a difference set the position) only up to %d", when, box.State(), pos)
			}
		}
		// delivery history
		var hist []upd
		for _, u := range parts[0] {
			if tape.Coin(simrt.Net, 1, 5) {
				simrt.FaultFired("lost", "%s", u.id)
				continue
			}
			hist = append(hist, u)
			if tape.Coin(simrt.Net, 1, 6) {
				simrt.FaultFired("dup", "%s", u.id)
				hist = append(hist, u)
			}
		}
		if overlap {
			for _, u := range parts[1] {
				if tape.Coin(simrt.Net, 1, 2) {
					hist = append(hist, u)
				}
			}
			simrt.FaultFired("overlap", "")
		}
		// reorder: bounded random swaps
		for i := range hist {
			if tape.Coin(simrt.Net, 1, 3) {
				j := i + 1 + tape.Choose(simrt.Net, 4)
				if j < len(hist) {
					hist[i], hist[j] = hist[j], hist[i]
					simrt.FaultFired("reorder", "")
				}
			}
		}
		ctx := context.Background()
		for _, u := range hist {
			// let simulated time pass; fire the gap timer like the main loop would
			if d := simrt.Pick(tape, simrt.Net, 0, 0, 100*time.Millisecond, 600*time.Millisecond); d > 0 {
				tm := time.NewTimer(d)
				i, _, _ := simrt.Select(0, false, simrt.SelRecv(tm.C), simrt.SelRecv(box.GapTimer()))
				tm.Stop()
				if i == 1 {
					difference("gap timeout")
					check("after gap-timeout difference")
				}
			}
			if tape.Coin(simrt.Wl, 1, 10) {
				difference("spontaneous (idle / too long)")
				check("after difference")
			}
			applying = false
			simrt.Ev("deliver", "%s", u.id)
			if err := box.Handle(ctx, tdupdates.VerifUpdate{Value: u.id, State: u.end, Count: u.end - u.start}); err != nil {
				simrt.Violate("C01", "C01.box-error", "box-error", "Handle returned %v", err)
			}
			check("after Handle(" + u.id + ")")
			_ = applying
		}
	})
	if out.HarnessErr == "" && out.Panic != "" {
		if out.PanicInRepo() {
			out.AddViolation("C01", "C01.panic", "box-panic", "sequence box panicked: %s", out.PanicLine())
		} else {
			out.HarnessErr = "panic in box harness: " + out.Panic
		}
	}
	return out
}
