package transfer

import (
	"context"
	"crypto/aes"
	"crypto/sha256"
	"encoding/binary"
	"errors"
	"fmt"
	"io"
	"testing"
	"time"

	"github.com/gotd/td/telegram/downloader"
	"github.com/gotd/td/tg"
	"github.com/gotd/td/tgerr"

	"verif/dst"
	"verif/simrt"
)

// dlServer is the fake file storage: master DC, hash windows, and a CDN.
type dlServer struct {
	tape   *simrt.Tape
	f      file
	typ    tg.StorageFileTypeClass
	flood  *floodLog
	faults bool
	fatal  error
	lat    bool
	// streak of timeouts on one request key
	streaks    bool // plain downloads only (C33)
	streakKey  string
	streakLeft int

	window int // hash window size
	// adversary
	corruptMaster bool // master bytes are corrupted somewhere (verified download must fail)
	corruptCDN    int  // 0 honest; 1 bit flip; 2 truncate; 3 extend; 4 swap halves; 5 bit flip only in answers that do not cover the whole hash window
	corruptAt     int64

	// CDN
	useCDN     bool
	key, iv    []byte
	token      []byte
	reupload   bool // first CDN request asks for a re-upload
	reuploaded bool
	tokenDies  int // invalidate the token after this many CDN requests (0: never)
	cdnReqs    int
	redirects  int
	corrupted  bool // an adversarial answer was actually delivered
	cdnOpens   int
	cdnCloses  int
}

func (s *dlServer) wait(ctx context.Context) error {
	if s.lat {
		if d := time.Duration(s.tape.Choose(simrt.Net, 4)) * 50 * time.Millisecond; d > 0 {
			tm := time.NewTimer(d)
			i, _, _ := simrt.Select(0, false, simrt.SelRecv(ctx.Done()), simrt.SelRecv(tm.C))
			tm.Stop()
			if i == 0 {
				return ctx.Err()
			}
		}
	}
	return nil
}

// fault answers a call with an injected error, or nil.
func (s *dlServer) fault(key string) error {
	if !s.faults {
		return nil
	}
	// a long streak of retryable timeouts on one request: any pattern must be ridden out
	if s.streakLeft > 0 && key == s.streakKey {
		s.streakLeft--
		simrt.FaultFired("rpc-timeout", "%s (streak, %d to go)", key, s.streakLeft)
		return tgerr.New(-503, "Timeout")
	}
	if s.streaks && s.streakKey == "" && s.tape.Coin(simrt.Fault, 1, 60) {
		s.streakKey, s.streakLeft = key, simrt.Pick(s.tape, simrt.Fault, 3, 12, 25, 45)
	}
	switch s.tape.Choose(simrt.Fault, 16) {
	case 0:
		return s.flood.answer(key, s.tape.Choose(simrt.Fault, 3), false)
	case 1:
		return s.flood.answer(key, s.tape.Choose(simrt.Fault, 3), true)
	case 2:
		simrt.FaultFired("rpc-timeout", "%s", key)
		return tgerr.New(-503, "Timeout")
	case 3:
		simrt.FaultFired("deadline-error", "%s", key)
		return fmt.Errorf("read: %w", context.DeadlineExceeded)
	case 4:
		if s.tape.Coin(simrt.Fault, 1, 5) {
			simrt.FaultFired("fatal-rpc-error", "%s", key)
			return s.fatal
		}
	}
	return nil
}

func (s *dlServer) hashes(offset int64) []tg.FileHash {
	// windows starting at the one containing offset; 1..3 of them
	var out []tg.FileHash
	start := offset - offset%int64(s.window)
	for n := 1 + s.tape.Choose(simrt.Net, 3); n > 0 && start < s.f.size; n-- {
		b := s.f.bytes(start, s.window)
		sum := sha256.Sum256(b)
		// like the fixtures of the library's own tests, a window's limit is the
		// window size even when the file ends inside it (the hash covers the
		// bytes that exist)
		out = append(out, tg.FileHash{Offset: start, Limit: s.window, Hash: sum[:]})
		start += int64(s.window)
	}
	return out
}

func (s *dlServer) UploadGetFile(ctx context.Context, req *tg.UploadGetFileRequest) (tg.UploadFileClass, error) {
	key := fmt.Sprintf("getFile@%d", req.Offset)
	s.flood.attempt(key)
	simrt.Ev("getFile", "offset=%d limit=%d cdn=%v", req.Offset, req.Limit, req.CDNSupported)
	if err := s.wait(ctx); err != nil {
		return nil, err
	}
	if err := s.fault(key); err != nil {
		return nil, err
	}
	if s.useCDN && req.CDNSupported {
		s.redirects++
		s.token = []byte(fmt.Sprintf("token-%d", s.redirects))
		s.cdnReqs = 0
		simrt.Ev("redirect", "token=%s", s.token)
		return &tg.UploadFileCDNRedirect{DCID: 203, FileToken: s.token, EncryptionKey: s.key, EncryptionIv: s.iv, FileHashes: s.hashes(0)}, nil
	}
	// documented parameter rules of upload.getFile (core.telegram.org/api/files):
	// precise: offset and limit divisible by 1 KiB, limit <= 1 MiB; otherwise
	// divisible by 4 KiB, 1 MiB divisible by limit, request within one 1 MiB block
	{
		const kb, mb = 1024, 1 << 20
		bad := req.Limit <= 0 || req.Limit > mb
		if req.Precise {
			bad = bad || req.Offset%kb != 0 || req.Limit%kb != 0
		} else {
			bad = bad || req.Offset%(4*kb) != 0 || req.Limit%(4*kb) != 0 || mb%req.Limit != 0 || req.Offset/mb != (req.Offset+int64(req.Limit)-1)/mb
		}
		if bad {
			simrt.Ev("getFile-refused", "offset=%d limit=%d precise=%v", req.Offset, req.Limit, req.Precise)
			return nil, tgerr.New(400, "LIMIT_INVALID")
		}
	}
	data := s.f.bytes(req.Offset, req.Limit)
	if s.corruptMaster && req.Offset <= s.corruptAt && s.corruptAt < req.Offset+int64(len(data)) {
		data[s.corruptAt-req.Offset] ^= 0x40
		s.corrupted = true
		simrt.FaultFired("master-corrupt", "offset=%d", s.corruptAt)
	}
	return &tg.UploadFile{Type: s.typ, Bytes: data}, nil
}

func (s *dlServer) UploadGetFileHashes(ctx context.Context, req *tg.UploadGetFileHashesRequest) ([]tg.FileHash, error) {
	key := fmt.Sprintf("getFileHashes@%d", req.Offset)
	s.flood.attempt(key)
	simrt.Ev("getFileHashes", "offset=%d", req.Offset)
	if err := s.wait(ctx); err != nil {
		return nil, err
	}
	if err := s.fault(key); err != nil {
		return nil, err
	}
	return s.hashes(req.Offset), nil
}

func (s *dlServer) UploadReuploadCDNFile(ctx context.Context, req *tg.UploadReuploadCDNFileRequest) ([]tg.FileHash, error) {
	simrt.Ev("reuploadCDNFile", "token=%s", req.FileToken)
	if string(req.FileToken) != string(s.token) {
		return nil, tgerr.New(400, "FILE_TOKEN_INVALID")
	}
	s.reuploaded = true
	return s.hashes(0), nil
}

func (s *dlServer) UploadGetCDNFileHashes(ctx context.Context, req *tg.UploadGetCDNFileHashesRequest) ([]tg.FileHash, error) {
	key := fmt.Sprintf("getCdnFileHashes@%d", req.Offset)
	s.flood.attempt(key)
	simrt.Ev("getCdnFileHashes", "offset=%d", req.Offset)
	if err := s.fault(key); err != nil {
		return nil, err
	}
	if string(req.FileToken) != string(s.token) {
		return nil, tgerr.New(400, "FILE_TOKEN_INVALID")
	}
	return s.hashes(req.Offset), nil
}

func (s *dlServer) UploadGetWebFile(ctx context.Context, req *tg.UploadGetWebFileRequest) (*tg.UploadWebFile, error) {
	return nil, errors.New("not a web file")
}

// CDN provider
type cdnConn struct{ s *dlServer }

func (c cdnConn) Close() error { c.s.cdnCloses++; return nil }

func (s *dlServer) CDN(ctx context.Context, dc int, max int64) (downloader.CDN, io.Closer, error) {
	simrt.Ev("cdn-open", "dc=%d", dc)
	s.cdnOpens++
	return cdnConn{s}, cdnConn{s}, nil
}

// ctr encrypts like the CDN does: AES-256-CTR whose counter block is the iv
// with its last four bytes replaced by offset/16 (big endian), incremented as
// a 128-bit big-endian number per block. Written with the block cipher only.
func (s *dlServer) ctr(offset int64, plain []byte) []byte {
	blk, _ := aes.NewCipher(s.key)
	ctr := append([]byte(nil), s.iv...)
	binary.BigEndian.PutUint32(ctr[12:], uint32(offset/16))
	out := make([]byte, len(plain))
	var ks [16]byte
	for i := 0; i < len(plain); i += 16 {
		blk.Encrypt(ks[:], ctr)
		for j := 0; j < 16 && i+j < len(plain); j++ {
			out[i+j] = plain[i+j] ^ ks[j]
		}
		for k := 15; k >= 0; k-- {
			ctr[k]++
			if ctr[k] != 0 {
				break
			}
		}
	}
	return out
}

func (c cdnConn) UploadGetCDNFile(ctx context.Context, req *tg.UploadGetCDNFileRequest) (tg.UploadCDNFileClass, error) {
	s := c.s
	key := fmt.Sprintf("getCdnFile@%d", req.Offset)
	s.flood.attempt(key)
	simrt.Ev("getCdnFile", "offset=%d limit=%d token=%s", req.Offset, req.Limit, req.FileToken)
	// documented constraints of upload.getCdnFile
	const kb4, mb1 = 4096, 1 << 20
	if req.Offset%kb4 != 0 || req.Limit%kb4 != 0 || req.Limit <= 0 || mb1%req.Limit != 0 || req.Offset/mb1 != (req.Offset+int64(req.Limit)-1)/mb1 {
		simrt.Violate("C34", "C34.cdn-range", "cdn-range", "upload.getCdnFile offset=%d limit=%d violates the documented constraints (offset and limit divisible by 4 KiB, 1 MiB divisible by limit, request within one 1 MiB block)", req.Offset, req.Limit)
		return nil, tgerr.New(400, "LIMIT_INVALID")
	}
	if err := s.wait(ctx); err != nil {
		return nil, err
	}
	if err := s.fault(key); err != nil {
		return nil, err
	}
	if string(req.FileToken) != string(s.token) {
		return nil, tgerr.New(400, "FILE_TOKEN_INVALID")
	}
	s.cdnReqs++
	if s.tokenDies > 0 && s.cdnReqs > s.tokenDies {
		s.tokenDies = 0
		simrt.FaultFired("cdn-token-invalidated", "")
		s.token = []byte("dead")
		return nil, tgerr.New(400, "FILE_TOKEN_INVALID")
	}
	if s.reupload && !s.reuploaded {
		simrt.FaultFired("cdn-reupload-needed", "")
		return &tg.UploadCDNFileReuploadNeeded{RequestToken: []byte("rq")}, nil
	}
	plain := s.f.bytes(req.Offset, req.Limit)
	enc := s.ctr(req.Offset, plain)
	ws := s.corruptAt - s.corruptAt%int64(s.window)
	coversWindow := req.Offset <= ws && req.Offset+int64(req.Limit) >= ws+int64(s.window)
	if s.corruptCDN == 5 && coversWindow {
		// the selective adversary answers whole-window requests honestly
	} else if s.corruptCDN != 0 && len(enc) > 0 && req.Offset <= s.corruptAt && s.corruptAt < req.Offset+int64(len(enc)) {
		s.corrupted = true
		switch s.corruptCDN {
		case 1, 5:
			enc[s.corruptAt-req.Offset] ^= 1
		case 2:
			enc = enc[:len(enc)/2/16*16]
		case 3:
			enc = append(enc, enc[:min(16, len(enc))]...)
		case 4:
			h := len(enc) / 2 / 16 * 16
			if h > 0 {
				enc = append(append([]byte(nil), enc[h:2*h]...), enc[:h]...)
			}
		}
		simrt.FaultFired("cdn-corrupt", "kind=%d at=%d", s.corruptCDN, s.corruptAt)
	}
	return &tg.UploadCDNFile{Bytes: enc}, nil
}

// sink records what the download wrote.
type sink struct {
	buf     []byte
	covered []int32 // per byte: how many times written (parallel mode)
	par     bool
	over    bool
	bad     string
}

func (w *sink) Write(p []byte) (int, error) {
	w.buf = append(w.buf, p...)
	return len(p), nil
}

func (w *sink) WriteAt(p []byte, off int64) (int, error) {
	end := int(off) + len(p)
	if end > len(w.buf) {
		w.buf = append(w.buf, make([]byte, end-len(w.buf))...)
		w.covered = append(w.covered, make([]int32, end-len(w.covered))...)
	}
	copy(w.buf[off:], p)
	for i := int(off); i < end; i++ {
		w.covered[i]++
	}
	return len(p), nil
}

func runDownload(t *testing.T, tape *simrt.Tape, env dst.Env, verified bool) *simrt.Outcome {
	prop := "C33"
	if verified {
		prop = "C34"
	}
	out := simrt.Run(t, tape, simrt.Options{Policy: -1}, func(sim *simrt.Sim) {
		viol := func(rule, sig, format string, args ...any) { simrt.Violate(prop, rule, sig, format, args...) }
		crossMB := false // the file reaches over a 1 MiB border of the CDN request rules
		ps := simrt.Pick(tape, simrt.Cfg, 4096, 8192, 65536, 131072, 524288)
		if !verified && tape.Coin(simrt.Cfg, 1, 3) {
			ps = 1024 * (1 + tape.Choose(simrt.Cfg, 8)) // plain downloads take any part size
		}
		if verified && tape.Coin(simrt.Cfg, 1, 3) {
			// part sizes that neither divide nor are divided by the hash window:
			// chunks then straddle window boundaries
			ps = 4096 * simrt.Pick(tape, simrt.Cfg, 5, 11, 12, 13, 19, 24, 40)
			crossMB = tape.Coin(simrt.Cfg, 1, 2)
		}
		threads := tape.Range(simrt.Cfg, 1, 8)
		parallel := tape.Coin(simrt.Cfg, 1, 2)
		var size int64
		switch tape.Choose(simrt.Wl, 8) {
		case 0:
			size = 0
		case 1:
			size = 1
		case 2:
			size = int64(ps) - 1
		case 3:
			size = int64(ps) + 1
		case 4:
			size = int64(ps) * int64(1+tape.Choose(simrt.Wl, 5))
		case 5:
			size = int64(ps)*int64(1+tape.Choose(simrt.Wl, 5)) + int64(1+tape.Choose(simrt.Wl, ps-1))
		default:
			size = int64(tape.Choose(simrt.Wl, 5*ps+1))
		}
		if size > 3<<20 {
			size = 3<<20 + int64(tape.Choose(simrt.Wl, 4096))
		}
		if crossMB {
			size = 1<<20 + int64(tape.Choose(simrt.Wl, 1<<20))
		}
		f := file{seed: tape.Uint64(simrt.Wl), size: size}
		typ := simrt.Pick[tg.StorageFileTypeClass](tape, simrt.Wl, &tg.StorageFileJpeg{}, &tg.StorageFileMp4{}, &tg.StorageFileUnknown{}, &tg.StorageFilePartial{})
		srv := &dlServer{tape: tape, f: f, typ: typ, flood: newFloodLog(), faults: tape.Coin(simrt.Cfg, 3, 4), fatal: genFatal(tape), lat: tape.Coin(simrt.Cfg, 1, 2)}
		srv.window = simrt.Pick(tape, simrt.Cfg, 4096, 8192, 16384, 131072)
		srv.streaks = !verified
		verifyFlag := false
		if verified {
			mode := tape.Choose(simrt.Cfg, 3) // 0: master + WithVerify; 1: CDN, inline verification; 2: CDN + WithVerify
			verifyFlag = mode != 1
			srv.useCDN = mode != 0
			if srv.useCDN {
				srv.key = make([]byte, 32)
				srv.iv = make([]byte, 16)
				tape.Fill(simrt.Wl, srv.key)
				tape.Fill(simrt.Wl, srv.iv)
				srv.reupload = tape.Coin(simrt.Fault, 1, 4)
				if tape.Coin(simrt.Fault, 1, 4) {
					srv.tokenDies = 1 + tape.Choose(simrt.Fault, 4)
				}
			}
			if size > 0 && tape.Coin(simrt.Fault, 1, 3) {
				srv.corruptAt = int64(tape.Choose(simrt.Fault, int(size)))
				if srv.useCDN {
					srv.corruptCDN = 1 + tape.Choose(simrt.Fault, 5)
				} else {
					srv.corruptMaster = true
				}
			}
		}
		simrt.Ev("config", "size=%d part=%d threads=%d parallel=%v verify=%v cdn=%v window=%d corruptCDN=%d corruptMaster=%v reupload=%v tokenDies=%d faults=%v",
			size, ps, threads, parallel, verifyFlag, srv.useCDN, srv.window, srv.corruptCDN, srv.corruptMaster, srv.reupload, srv.tokenDies, srv.faults)
		d := downloader.NewDownloader().WithPartSize(ps)
		if srv.useCDN {
			d = d.WithAllowCDN(true)
		}
		b := d.Download(srv, &tg.InputDocumentFileLocation{ID: 1, AccessHash: 2}).WithThreads(threads).WithVerify(verifyFlag)
		ctx, cancel := context.WithTimeout(context.Background(), 2*time.Hour)
		defer cancel()
		w := &sink{par: parallel}
		var gotTyp tg.StorageFileTypeClass
		var err error
		if parallel {
			gotTyp, err = b.Parallel(ctx, w)
		} else {
			gotTyp, err = b.Stream(ctx, w)
		}
		simrt.Ev("download-done", "err=%v bytes=%d", err, len(w.buf))
		if err != nil && ctx.Err() == nil && tgerr.Is(err, "FLOOD_WAIT", "FLOOD_PREMIUM_WAIT") {
			simrt.Violate("C40", "C40.flood-wait-not-retried", "flood-wait-not-retried", "the operation failed with %v instead of waiting for the flood-wait period and retrying", err)
		}
		if err != nil {
			var re *tgerr.Error
			injected := errors.As(err, &re) && re.Message == srv.fatal.(*tgerr.Error).Message
			if !injected && !srv.corrupted && ctx.Err() == nil {
				viol(prop+".spurious-error", "spurious-error", "download of %d bytes failed although nothing fatal was injected and the peer was honest: %v", size, err)
			}
			return
		}
		// completed: must equal the genuine file
		if srv.corrupted && srv.useCDN && srv.corruptCDN == 2 {
			// A truncating CDN: classify by root cause. If every byte that was
			// written is genuine and only bytes are missing (short file, or a
			// never-written hole in the parallel writer), the download accepted
			// a short CDN answer as the end of the file.
			wrongWritten, missing := false, int64(len(w.buf)) < size
			for i := range w.buf {
				written := !parallel || (i < len(w.covered) && w.covered[i] > 0)
				if written && (int64(i) >= size || w.buf[i] != f.at(int64(i))) {
					wrongWritten = true
				}
				if !written {
					missing = true
				}
			}
			if !wrongWritten && missing {
				viol("C34.cdn-truncation-accepted", "cdn-truncation-accepted written-bytes-genuine", "an untrusted CDN answered a chunk request with fewer (genuine) bytes; the download completed successfully with %d of %d bytes in place (parallel=%v): bytes are missing although every delivered hash window verified", len(w.buf), size, parallel)
				return
			}
		}
		if int64(len(w.buf)) != size {
			sig := "length"
			if srv.corrupted {
				// a completed but short/long download after an adversarial answer:
				// name the attack so that findings are keyed precisely
				sig = fmt.Sprintf("length after adversarial answer cdn=%v kind=%d prefix-genuine=%v window-aligned=%v", srv.useCDN, srv.corruptCDN,
					int64(len(w.buf)) <= size && string(w.buf) == string(f.bytes(0, len(w.buf))), len(w.buf)%srv.window == 0)
			}
			viol(prop+".length", sig, "download completed with %d bytes; the file has %d (part size %d, %d threads, parallel=%v, adversarial answer delivered=%v)", len(w.buf), size, ps, threads, parallel, srv.corrupted)
			return
		}
		for i := range w.buf {
			if w.buf[i] != f.at(int64(i)) {
				what := "content"
				if srv.corrupted {
					what = "delivered-unverified-bytes"
				}
				sig := what
				if srv.corrupted {
					// hole: the wrong bytes are a never-written (zero) range of the parallel writer
					hole := parallel && i < len(w.covered) && w.covered[i] == 0
					sig = fmt.Sprintf("%s cdn=%v kind=%d hole=%v", what, srv.useCDN, srv.corruptCDN, hole)
				}
				viol(prop+"."+what, sig, "download completed, but byte %d is %#x; the genuine file has %#x (corruption injected: %v)", i, w.buf[i], f.at(int64(i)), srv.corrupted)
				return
			}
		}
		if parallel {
			for i, c := range w.covered {
				if c != 1 {
					viol(prop+".coverage", "coverage", "byte %d was written %d times (parallel download must write every byte exactly once)", i, c)
					return
				}
			}
		}
		if !verified && size > 0 {
			if gotTyp == nil || gotTyp.TypeID() != typ.TypeID() {
				viol(prop+".type", "type", "reported file type %T, the server sent %T", gotTyp, typ)
			}
		}
		if srv.cdnOpens != srv.cdnCloses {
			simrt.Probe("cdn-connection-left-open")
		}
	})
	if out.Stuck && out.HarnessErr == "" && len(out.Violations) == 0 && out.Panic == "" {
		out.AddViolation(prop, prop+".stuck", "stuck", "download never finished: %v", out.StuckTasks)
	}
	return out
}
