// Package transfer is world W9: the real uploader and downloader (plain,
// parallel, hash-verified and CDN paths) against fake Telegram file RPCs that
// answer with flood waits, refusals, timeouts and fatal errors under simulated
// time, and an adversarial CDN. Decides C32, C33, C34 and the timing clause of
// C40.
package transfer

import (
	"fmt"
	"strings"
	"testing"
	"time"

	"github.com/gotd/td/tgerr"

	"verif/dst"
	"verif/simrt"
)

var World = dst.World{
	Name:  "transfer",
	Props: []string{"C32", "C33", "C34", "C40"},
	Run:   run,
	Real: []string{"telegram/uploader (Upload, small and big loops, part sizing)", "telegram/downloader (reader, stream, parallel, verifier, CDN state machine, CDN request planning, inline verification, AES-CTR decryption)",
		"tgerr.New / tgerr.FloodWait on the bubble clock", "tdsync.CancellableGroup, syncio"},
	Stub: []string{"uploader.Client (records every part request; true / false / FLOOD_WAIT / FLOOD_PREMIUM_WAIT / fatal answers; latency)", "downloader.Client + CDNProvider + CDN (synthetic file, hash windows, redirects, re-upload, token invalidation, adversarial bytes; own AES-CTR)",
		"source reader with short reads", "recording io.Writer / io.WriterAt"},
}

// file is the synthetic content f(seed, offset).
type file struct {
	seed uint64
	size int64
}

func (f file) at(off int64) byte {
	x := uint64(off)*0x9E3779B97F4A7C15 + f.seed
	x ^= x >> 29
	return byte(x * 0xBF58476D1CE4E5B9 >> 56)
}

func (f file) bytes(off int64, n int) []byte {
	if off >= f.size {
		return nil
	}
	if off+int64(n) > f.size {
		n = int(f.size - off)
	}
	p := make([]byte, n)
	for i := range p {
		p[i] = f.at(off + int64(i))
	}
	return p
}

// flood bookkeeping for C40: after FLOOD_(PREMIUM_)WAIT_n for a call, the
// next attempt of that call may not start earlier than n+1 simulated seconds
// later.
type floodLog struct {
	until map[string]time.Duration
	n     map[string]int
}

func newFloodLog() *floodLog {
	return &floodLog{until: map[string]time.Duration{}, n: map[string]int{}}
}

// attempt is called when an attempt of the call identified by key begins.
func (l *floodLog) attempt(key string) {
	// a retry is made by the task that got the flood wait; another worker
	// asking for the same thing is a different call
	id, _ := simrt.CurrentTask()
	key = fmt.Sprintf("%s by task %d", key, id)
	if u, ok := l.until[key]; ok {
		if now := simrt.Now(); now < u {
			simrt.Violate("C40", "C40.flood-wait-too-short", "flood-wait-too-short",
				"call %s was answered FLOOD_WAIT_%d, but the next attempt started %v before the %d+1 seconds had passed", key, l.n[key], u-now, l.n[key])
		}
		delete(l.until, key)
	}
}

// answer produces a flood-wait error for key and records the obligation.
func (l *floodLog) answer(key string, n int, premium bool) error {
	id, _ := simrt.CurrentTask()
	key = fmt.Sprintf("%s by task %d", key, id)
	msg := fmt.Sprintf("FLOOD_WAIT_%d", n)
	typ := "FLOOD_WAIT"
	if premium {
		msg = fmt.Sprintf("FLOOD_PREMIUM_WAIT_%d", n)
		typ = "FLOOD_PREMIUM_WAIT"
	}
	l.until[key] = simrt.Now() + time.Duration(n+1)*time.Second
	l.n[key] = n
	simrt.FaultFired("flood-wait", "%s %s", key, msg)
	e := tgerr.New(420, msg)
	// parsing clause, on the errors the injector generates
	if e.Type != typ || e.Argument != n {
		simrt.Violate("C40", "C40.parse", "parse", "%q parsed as type %q argument %d", msg, e.Type, e.Argument)
	}
	return e
}

// genFatal builds the fatal RPC error of a run: upper-case words (some with
// digits inside or in front) and at most one numeric argument at any
// position. The parsing clause of C40 is checked on it: the type is the
// message without the numeric part, the argument is that number.
func genFatal(tape *simrt.Tape) *tgerr.Error {
	words := []string{"FILE", "PART", "PARTS", "REFERENCE", "EXPIRED", "INVALID", "2FA", "CONFIRM", "PHONE", "4G", "LOCKED", "X", "Y9", "B2B", "3D", "SLOWMODE", "TAKEOUT", "INIT", "DELAY"}
	n := 1 + tape.Choose(simrt.Wl, 4)
	argAt := -1
	if tape.Coin(simrt.Wl, 2, 3) {
		argAt = tape.Choose(simrt.Wl, n+1)
	}
	// (2, 3, 4, 9: also the leading digits of words in the list)
	arg := simrt.Pick(tape, simrt.Wl, 0, 1, 2, 3, 4, 9, 7, 60, 86400, 1<<31-1)
	var parts, typ []string
	for i := 0; i <= n; i++ {
		if i == argAt {
			parts = append(parts, fmt.Sprint(arg))
		}
		if i < n {
			w := words[tape.Choose(simrt.Wl, len(words))]
			parts = append(parts, w)
			typ = append(typ, w)
		}
	}
	msg := strings.Join(parts, "_")
	e := tgerr.New(400, msg)
	wantArg := 0
	if argAt >= 0 {
		wantArg = arg
	}
	wantTyp := strings.Join(typ, "_")
	if len(parts) < 2 {
		wantTyp = msg
	}
	if e.Type != wantTyp || e.Argument != wantArg || e.Message != msg {
		simrt.Violate("C40", "C40.parse", "parse", "%q parsed as type %q argument %d (expected type %q argument %d)", msg, e.Type, e.Argument, wantTyp, wantArg)
	}
	return e
}

func run(t *testing.T, tape *simrt.Tape, env dst.Env) *simrt.Outcome {
	scen := env.Prop
	if scen == "" || scen == "C40" {
		scen = simrt.Pick(tape, simrt.Cfg, "C32", "C33", "C34")
	}
	var out *simrt.Outcome
	switch scen {
	case "C32":
		out = runUpload(t, tape, env)
	case "C33":
		out = runDownload(t, tape, env, false)
	default:
		out = runDownload(t, tape, env, true)
	}
	if out.HarnessErr == "" && out.Panic != "" {
		if out.PanicInRepo() {
			out.AddViolation(scen, scen+".panic", "panic", "transfer code panicked in task %s: %s", out.PanicTask, out.PanicLine())
		} else {
			out.HarnessErr = "panic in world transfer (" + scen + "): " + out.Panic
		}
	}
	return out
}
