package transfer

import (
	"bytes"
	"context"
	"crypto/md5"
	"encoding/hex"
	"errors"
	"fmt"
	"io"
	"sort"
	"testing"
	"time"

	"github.com/gotd/td/telegram/uploader"
	"github.com/gotd/td/tg"
	"github.com/gotd/td/tgerr"

	"verif/dst"
	"verif/simrt"
)

const (
	smallLimit = 10 * 1024 * 1024 // files above this are "big" (upload documentation)
	partsLimit = 3999
	defaultPS  = 128 * 1024
)

type partReq struct {
	id       int
	n        int
	total    int
	big      bool
	ok       bool // bytes equal the source at id*partSize
	accepted bool
	beginSeq uint64
	beginT   time.Duration
	fileID   int64
}

type upClient struct {
	tape     *simrt.Tape
	f        file
	ps       int
	reqs     []*partReq
	flood    *floodLog
	faults   bool
	fatalErr error
	latency  bool
}

func (c *upClient) serve(ctx context.Context, r *partReq, data []byte) (bool, error) {
	key := fmt.Sprintf("part %d", r.id)
	c.flood.attempt(key)
	r.beginSeq, r.beginT = simrt.Ev("save-part", "id=%d len=%d total=%d big=%v", r.id, len(data), r.total, r.big), simrt.Now()
	r.n = len(data)
	r.ok = bytes.Equal(data, c.f.bytes(int64(r.id)*int64(c.ps), len(data))) && int64(r.id)*int64(c.ps)+int64(len(data)) <= c.f.size
	c.reqs = append(c.reqs, r)
	if c.latency {
		if d := time.Duration(c.tape.Choose(simrt.Net, 4)) * 50 * time.Millisecond; d > 0 {
			tm := time.NewTimer(d)
			i, _, _ := simrt.Select(0, false, simrt.SelRecv(ctx.Done()), simrt.SelRecv(tm.C))
			tm.Stop()
			if i == 0 {
				return false, ctx.Err()
			}
		}
	}
	if c.faults {
		switch c.tape.Choose(simrt.Fault, 14) {
		case 0:
			return false, c.flood.answer(key, c.tape.Choose(simrt.Fault, 4), false)
		case 1:
			return false, c.flood.answer(key, c.tape.Choose(simrt.Fault, 3), true)
		case 2, 3:
			simrt.FaultFired("part-refused", "%s", key)
			return false, nil
		case 4:
			if c.tape.Coin(simrt.Fault, 1, 4) {
				simrt.FaultFired("fatal-rpc-error", "%s", key)
				return false, c.fatalErr
			}
		}
	}
	r.accepted = true
	return true, nil
}

func (c *upClient) UploadSaveFilePart(ctx context.Context, req *tg.UploadSaveFilePartRequest) (bool, error) {
	return c.serve(ctx, &partReq{id: req.FilePart, fileID: req.FileID}, req.Bytes)
}

func (c *upClient) UploadSaveBigFilePart(ctx context.Context, req *tg.UploadSaveBigFilePartRequest) (bool, error) {
	return c.serve(ctx, &partReq{id: req.FilePart, fileID: req.FileID, total: req.FileTotalParts, big: true}, req.Bytes)
}

// srcReader streams the synthetic file with arbitrary short reads.
type srcReader struct {
	tape  *simrt.Tape
	f     file
	off   int64
	short bool
	eofAt uint64
	eofT  time.Duration
	eof   bool
}

func (r *srcReader) Read(p []byte) (int, error) {
	if r.off >= r.f.size {
		if !r.eof {
			r.eof = true
			r.eofAt = simrt.Ev("source-eof", "")
			r.eofT = simrt.Now()
		}
		return 0, io.EOF
	}
	n := len(p)
	if r.short && n > 1 && r.tape.Coin(simrt.Net, 1, 3) {
		n = 1 + r.tape.Choose(simrt.Net, n-1)
	}
	b := r.f.bytes(r.off, n)
	copy(p, b)
	r.off += int64(len(b))
	return len(b), nil
}

func runUpload(t *testing.T, tape *simrt.Tape, env dst.Env) *simrt.Outcome {
	out := simrt.Run(t, tape, simrt.Options{Policy: -1}, func(s *simrt.Sim) {
		viol := func(rule, sig, format string, args ...any) { simrt.Violate("C32", rule, sig, format, args...) }
		// part size
		explicit := tape.Coin(simrt.Cfg, 2, 3)
		ps := defaultPS
		invalidPS := false
		if explicit {
			switch tape.Choose(simrt.Cfg, 8) {
			case 0:
				ps = simrt.Pick(tape, simrt.Cfg, 1000, 3072, 1536, 0, 524288+1024)
				invalidPS = true
			default:
				ps = 1024 << tape.Choose(simrt.Cfg, 10) // 1 KiB .. 512 KiB
			}
		}
		known := tape.Coin(simrt.Cfg, 2, 3)
		threads := tape.Range(simrt.Cfg, 1, 8)
		// size
		var size int64
		base := int64(ps)
		if invalidPS || base == 0 {
			base = 4096
		}
		switch tape.Choose(simrt.Wl, 10) {
		case 0:
			size = 0
		case 1:
			size = 1
		case 2:
			size = base - 1
		case 3:
			size = base + 1
		case 4:
			size = base * int64(1+tape.Choose(simrt.Wl, 6))
		case 5:
			size = base*int64(1+tape.Choose(simrt.Wl, 6)) + int64(1+tape.Choose(simrt.Wl, int(base)-1))
		case 6:
			if ps >= 128*1024 && !invalidPS {
				size = smallLimit + int64(tape.Choose(simrt.Wl, 3)) - 1 // 10 MiB -1, 0, +1
			} else {
				size = base * 3
			}
		case 7:
			if env.Tier == "thorough" && !explicit && tape.Coin(simrt.Wl, 1, 6) {
				size = int64(partsLimit)*defaultPS + 1 + int64(tape.Choose(simrt.Wl, 1000)) // needs a grown part size
			} else {
				size = base * int64(7+tape.Choose(simrt.Wl, 3))
			}
		default:
			size = int64(tape.Choose(simrt.Wl, int(6*base)+1))
		}
		if explicit && !invalidPS && size/int64(ps) > 4200 {
			size = int64(ps) * 4100 // explicit small parts on a larger file: the library must refuse (small) or stream (big)
		}
		f := file{seed: tape.Uint64(simrt.Wl), size: size}
		cl := &upClient{tape: tape, f: f, ps: ps, flood: newFloodLog(), faults: tape.Coin(simrt.Cfg, 3, 4), fatalErr: genFatal(tape), latency: tape.Coin(simrt.Cfg, 1, 2)}
		src := &srcReader{tape: tape, f: f, short: tape.Coin(simrt.Cfg, 1, 2)}
		total := size
		if !known {
			total = -1
		}
		// effective part size: explicit, or what automatic sizing must choose to
		// stay within the parts limit (doubling from the 128 KiB default, at most 512 KiB)
		eff := ps
		if !explicit && known {
			for eff < 524288 && (size+int64(eff)-1)/int64(eff) > partsLimit {
				eff *= 2
			}
		}
		cl.ps = eff
		simrt.Ev("config", "size=%d known=%v partSize=%d explicit=%v invalid=%v threads=%d faults=%v", size, known, ps, explicit, invalidPS, threads, cl.faults)
		up := uploader.NewUploader(cl).WithThreads(threads).WithIDGenerator(func() (int64, error) { return 4242, nil })
		if explicit {
			up = up.WithPartSize(ps)
		}
		ctx, cancel := context.WithTimeout(context.Background(), 2*time.Hour)
		defer cancel()
		res, err := up.Upload(ctx, uploader.NewUpload("name.bin", src, total))
		simrt.Ev("upload-done", "err=%v", err)

		if invalidPS {
			if err == nil {
				viol("C32.invalid-part-size", "invalid-part-size", "part size %d accepted", ps)
			}
			if len(cl.reqs) > 0 {
				viol("C32.invalid-part-size", "invalid-part-size-sent", "part size %d is invalid, yet %d part requests were sent", ps, len(cl.reqs))
			}
			return
		}
		n := int((size + int64(eff) - 1) / int64(eff))
		fatal := false
		if err != nil && ctx.Err() == nil && tgerr.Is(err, "FLOOD_WAIT", "FLOOD_PREMIUM_WAIT") {
			simrt.Violate("C40", "C40.flood-wait-not-retried", "flood-wait-not-retried", "the operation failed with %v instead of waiting for the flood-wait period and retrying", err)
		}
		if err != nil {
			var re *tgerr.Error
			if errors.As(err, &re) && re.Message == cl.fatalErr.(*tgerr.Error).Message {
				fatal = true
			}
			tooMany := explicit && known && size <= smallLimit && n > partsLimit
			if !fatal && !tooMany && ctx.Err() == nil {
				viol("C32.spurious-error", "spurious-error", "upload of %d bytes (part size %d, %d threads) failed without an injected fatal error: %v", size, eff, threads, err)
			}
			return
		}
		// success: the accepted parts
		acc := map[int]int{}
		for _, r := range cl.reqs {
			if !r.ok {
				viol("C32.part-bytes", "part-bytes", "part %d (%d bytes) does not carry the source bytes at offset %d (part size %d, file size %d)", r.id, r.n, int64(r.id)*int64(eff), eff, size)
				return
			}
			if r.fileID != 4242 {
				viol("C32.file-id", "file-id", "part %d sent with file id %d", r.id, r.fileID)
			}
			if r.accepted {
				acc[r.id]++
			}
		}
		var ids []int
		for id := range acc {
			ids = append(ids, id)
		}
		sort.Ints(ids)
		for _, id := range ids {
			if acc[id] > 1 {
				viol("C32.part-twice", "part-twice", "part %d was accepted by the server %d times", id, acc[id])
			}
		}
		if len(ids) != n || (n > 0 && (ids[0] != 0 || ids[n-1] != n-1)) {
			viol("C32.part-set", "part-set", "accepted part numbers are %v; the file of %d bytes needs exactly 0..%d (part size %d)", compactInts(ids), size, n-1, eff)
			return
		}
		for _, r := range cl.reqs {
			want := eff
			if r.id == n-1 {
				want = int(size - int64(n-1)*int64(eff))
			}
			if r.n != want {
				viol("C32.part-size", "part-size", "part %d of %d has %d bytes, expected %d", r.id, n, r.n, want)
			}
		}
		// (automatic sizing needs the size: nothing can be chosen for a stream of unknown length)
		if !explicit && known && n > partsLimit {
			viol("C32.parts-limit", "parts-limit", "automatic part sizing produced %d parts", n)
		}
		wantBig := size > smallLimit || !known
		switch d := res.(type) {
		case *tg.InputFile:
			if wantBig {
				viol("C32.kind", "kind", "file of %d bytes (size known: %v) was uploaded as a small file", size, known)
			}
			sum := md5.Sum(f.bytes(0, int(size)))
			if d.Parts != n || d.MD5Checksum != hex.EncodeToString(sum[:]) || d.ID != 4242 || d.Name != "name.bin" {
				viol("C32.descriptor", "descriptor small", "descriptor %+v; expected parts=%d md5=%s", *d, n, hex.EncodeToString(sum[:]))
			}
		case *tg.InputFileBig:
			if !wantBig {
				viol("C32.kind", "kind", "file of %d bytes with known size was uploaded as a big file", size)
			}
			if d.Parts != n || d.ID != 4242 || d.Name != "name.bin" {
				viol("C32.descriptor", "descriptor big", "descriptor %+v; expected parts=%d", *d, n)
			}
		default:
			viol("C32.descriptor", "descriptor type", "unexpected descriptor %T", res)
		}
		// file_total_parts of big-file parts
		for _, r := range cl.reqs {
			if !r.big {
				if wantBig {
					viol("C32.kind", "kind", "part %d of a big file sent with the small-file method", r.id)
				}
				continue
			}
			if r.total != -1 && r.total != n {
				viol("C32.total-parts", "total-parts value", "part %d announces file_total_parts=%d; the file has %d parts", r.id, r.total, n)
			}
			if known && r.total != n {
				viol("C32.total-parts", "total-parts known", "the size is known up front, yet part %d was sent with file_total_parts=%d (want %d)", r.id, r.total, n)
			}
			// (size%eff != 0: with an exact multiple the library learns of the end
			// only from the read after the last part, and nothing records it)
			if !known && src.eof && size%int64(eff) != 0 && r.beginT > src.eofT+time.Millisecond && r.total != n {
				// (a re-send after a flood wait, typically: the count has been known for a while)
				viol("C32.total-parts", "total-parts after-eof", "part %d was sent at %v with file_total_parts=%d although the source had ended at %v and the count %d was known", r.id, r.beginT, r.total, src.eofT, n)
			}
			if !known && r.id == n-1 && r.accepted && size%int64(eff) != 0 && r.total != n {
				viol("C32.total-parts", "total-parts last", "the short last part %d was sent with file_total_parts=%d although the count %d was known when it was read", r.id, r.total, n)
			}
		}
	})
	if out.Stuck && out.HarnessErr == "" && len(out.Violations) == 0 && out.Panic == "" {
		out.AddViolation("C32", "C32.stuck", "stuck", "upload never finished: %v", out.StuckTasks)
	}
	return out
}

func compactInts(v []int) string {
	if len(v) > 12 {
		return fmt.Sprintf("%v ... %v (%d values)", v[:6], v[len(v)-3:], len(v))
	}
	return fmt.Sprint(v)
}
