package stream

import (
	"crypto/hmac"
	"crypto/sha256"
	"encoding/binary"
	"fmt"
	"io"
	"testing"

	"github.com/gotd/td/mtproxy"
	"github.com/gotd/td/mtproxy/faketls"

	"verif/dst"
	"verif/simnet"
	"verif/simrand"
	"verif/simrt"
)

// readRec / writeRec: a minimal TLS record layer for the proxy side, written
// from RFC 5246 §6.2.1 (type, version, 16-bit length, fragment), independent
// of the code under test.
func readRec(r io.Reader) (typ byte, body []byte, raw []byte, err error) {
	var h [5]byte
	if _, err = io.ReadFull(r, h[:]); err != nil {
		return
	}
	n := int(binary.BigEndian.Uint16(h[3:]))
	body = make([]byte, n)
	if _, err = io.ReadFull(r, body); err != nil {
		return
	}
	return h[0], body, append(h[:], body...), nil
}

func rec(typ byte, body []byte) []byte {
	out := []byte{typ, 3, 3, byte(len(body) >> 8), byte(len(body))}
	return append(out, body...)
}

// serverHello builds the MTProxy FakeTLS answer: ServerHello handshake record,
// ChangeCipherSpec record, one application-data record; the 32 bytes at offset
// 11 carry HMAC-SHA256(secret, clientRandom || answer-with-zeroed-digest).
func serverHello(tape *simrt.Tape, secret []byte, clientRandom []byte, extraHandshake int) []byte {
	hello := make([]byte, 0, 128)
	hello = append(hello, 0x02, 0, 0, 0) // ServerHello, length patched below
	hello = append(hello, 3, 3)          // version
	hello = append(hello, make([]byte, 32)...)
	sid := make([]byte, 32)
	tape.Fill(simrt.Wl, sid)
	hello = append(hello, 32)
	hello = append(hello, sid...)
	hello = append(hello, 0x13, 0x01, 0x00) // cipher suite, compression
	ext := make([]byte, 2+tape.Choose(simrt.Wl, 40))
	tape.Fill(simrt.Wl, ext)
	binary.BigEndian.PutUint16(ext, uint16(len(ext)-2))
	hello = append(hello, ext...)
	n := len(hello) - 4
	hello[1], hello[2], hello[3] = byte(n>>16), byte(n>>8), byte(n)
	pkt := rec(0x16, hello)
	for i := 0; i < extraHandshake; i++ {
		x := make([]byte, 4+tape.Choose(simrt.Wl, 16))
		tape.Fill(simrt.Wl, x)
		pkt = append(pkt, rec(0x16, x)...)
	}
	pkt = append(pkt, rec(0x14, []byte{1})...)
	cert := make([]byte, 1+tape.Choose(simrt.Wl, 2000))
	tape.Fill(simrt.Wl, cert)
	pkt = append(pkt, rec(0x17, cert)...)
	mac := hmac.New(sha256.New, secret)
	mac.Write(clientRandom)
	mac.Write(pkt)
	copy(pkt[11:43], mac.Sum(nil))
	return pkt
}

func runTLS(t *testing.T, tape *simrt.Tape, env dst.Env) *simrt.Outcome {
	out := simrt.Run(t, tape, simrt.Options{Policy: -1}, func(s *simrt.Sim) {
		viol := func(rule, sig, format string, args ...any) { simrt.Violate("C19", rule, sig, format, args...) }
		secret := make([]byte, 16)
		tape.Fill(simrt.Wl, secret)
		chunk := simrt.Pick(tape, simrt.Cfg, 0, 1, 7, 100, 4096)
		// 0: honest proxy; 1: wrong secret; 2: wrong client random; 3: digest bit flipped; 4: answer body bit flipped
		cheat := 0
		if tape.Coin(simrt.Cfg, 1, 2) {
			cheat = 1 + tape.Choose(simrt.Fault, 4)
		}
		extra := tape.Choose(simrt.Wl, 3)
		simrt.Ev("config", "chunk=%d cheat=%d extraHandshakeRecords=%d", chunk, cheat, extra)
		a, b := simnet.Pipe("client", "proxy", simnet.Options{Chunk: chunk})
		// The ClientHello is built by the utls library, whose extension order
		// and padding are not a function of the supplied entropy source: the
		// proxy reads it unchunked so that no tape draw depends on its length.
		b.SetChunk(0)
		// wire monitor for records written by the client after the handshake
		var wire []byte
		monitor := false
		a.Tap = func(c *simnet.Conn, p []byte) []byte {
			if monitor {
				wire = append(wire, p...)
			}
			return p
		}
		cli := faketls.NewFakeTLS(simrand.New(tape), a)
		hs := make(chan error, 1)
		simrt.Go("proxy-handshake", func() {
			typ, body, raw, err := readRec(b)
			if err != nil || typ != 0x16 || len(raw) < 43 {
				simrt.Send(0, hs, fmt.Errorf("proxy: bad client hello: typ=%#x len=%d err=%v", typ, len(body), err))
				return
			}
			random := append([]byte(nil), raw[11:43]...)
			sec := secret
			switch cheat {
			case 1:
				sec = append([]byte(nil), secret...)
				sec[tape.Choose(simrt.Fault, len(sec))] ^= 1 << tape.Choose(simrt.Fault, 8)
				simrt.FaultFired("wrong-secret", "")
			case 2:
				random[tape.Choose(simrt.Fault, len(random))] ^= 1 << tape.Choose(simrt.Fault, 8)
				simrt.FaultFired("wrong-client-random", "")
			}
			pkt := serverHello(tape, sec, random, extra)
			switch cheat {
			case 3:
				pkt[11+tape.Choose(simrt.Fault, 32)] ^= 1 << tape.Choose(simrt.Fault, 8)
				simrt.FaultFired("digest-bitflip", "")
			case 4:
				// flip a bit of the authenticated answer outside the digest and
				// outside the record headers of the first record
				i := 43 + tape.Choose(simrt.Fault, 30)
				pkt[i] ^= 1 << tape.Choose(simrt.Fault, 8)
				simrt.FaultFired("answer-bitflip", "")
			}
			_, err = b.Write(pkt)
			simrt.Send(0, hs, err)
		})
		err := cli.Handshake([4]byte{0xdd, 0xdd, 0xdd, 0xdd}, 2, mtproxy.Secret{Secret: secret, CloakHost: "example.org", Type: mtproxy.TLS, Tag: 0xdd})
		if perr, _ := simrt.Recv(0, hs); perr != nil {
			simrt.Ev("proxy-error", "%v", perr)
			if cheat == 0 && err == nil {
				viol("C19.harness", "harness", "proxy side failed: %v", perr)
			}
			return
		}
		simrt.Ev("handshake", "cheat=%d err=%v", cheat, err)
		if cheat == 0 && err != nil {
			viol("C19.handshake-rejected", "handshake-rejected", "handshake with the right secret and client random failed: %v", err)
			return
		}
		if cheat != 0 {
			if err == nil {
				viol("C19.handshake-accepted", fmt.Sprintf("handshake-accepted cheat=%d", cheat),
					"client handshake succeeded although the server hello digest was not HMAC(secret, client random || hello) (%s)",
					[]string{"", "made with a wrong secret", "made with a wrong client random", "one digest bit flipped", "one answer bit flipped after signing"}[cheat])
			}
			return
		}
		// data phase: two FakeTLS ends
		b.SetChunk(chunk)
		monitor = true
		srv := faketls.NewFakeTLS(simrand.New(tape), b)
		done := make(chan struct{}, 4)
		pump := func(name string, w io.Writer, rd io.Reader, seed int) {
			var sizes []int
			total := 0
			for n := tape.Range(simrt.Wl, 1, 4); n > 0; n-- {
				var sz int
				switch tape.Choose(simrt.Wl, 8) {
				case 0:
					sz = tape.Choose(simrt.Wl, 3) // 0, 1, 2
				case 1:
					sz = 16384 + tape.Choose(simrt.Wl, 3) - 1
				case 2:
					sz = 65535 + tape.Choose(simrt.Wl, 3) - 1 // 65534, 65535, 65536
				case 3:
					sz = 131071 + tape.Choose(simrt.Wl, 2)
				case 4:
					if env.Tier == "thorough" {
						sz = 1<<20 + tape.Choose(simrt.Wl, 1<<21)
					} else {
						sz = 70000 + tape.Choose(simrt.Wl, 200000)
					}
				default:
					sz = 1 + tape.Choose(simrt.Wl, 5000)
				}
				if chunk > 0 && chunk < 100 && sz > 20000 {
					sz = sz%20000 + 1 // keep byte-granular chunking affordable
				}
				sizes = append(sizes, sz)
				total += sz
			}
			simrt.Ev("plan", "%s writes=%v", name, sizes)
			simrt.Go(name+"-writer", func() {
				defer func() { simrt.Send(0, done, struct{}{}) }()
				off := 0
				for _, sz := range sizes {
					p := make([]byte, sz)
					for i := range p {
						p[i] = byte((off+i)*13 + seed)
					}
					n, err := w.Write(p)
					if err != nil || n != sz {
						viol("C19.write", "write", "%s: Write of %d bytes returned n=%d err=%v", name, sz, n, err)
						return
					}
					off += sz
				}
			})
			simrt.Go(name+"-reader", func() {
				defer func() { simrt.Send(0, done, struct{}{}) }()
				got := 0
				buf := make([]byte, 1+tape.Choose(simrt.Wl, 70000))
				for got < total {
					n, err := rd.Read(buf)
					for i := 0; i < n; i++ {
						if buf[i] != byte((got+i)*13+seed) {
							viol("C19.stream", "stream", "%s: byte %d of the stream read back as %#x, written %#x (writes %v)", name, got+i, buf[i], byte((got+i)*13+seed), sizes)
							return
						}
					}
					got += n
					if err != nil {
						viol("C19.read", "read", "%s: read failed after %d of %d bytes (writes %v): %v", name, got, total, sizes, err)
						return
					}
				}
			})
		}
		pump("client-to-proxy", cli, srv, 3)
		pump("proxy-to-client", srv, cli, 5)
		for i := 0; i < 4; i++ { // two readers, two writers
			simrt.Recv(0, done)
		}
		// record monitor on what the client put on the wire
		for off := 0; off < len(wire); {
			if len(wire)-off < 5 {
				viol("C19.record", "record-truncated", "client wire stream ends inside a record header at offset %d", off)
				break
			}
			n := int(binary.BigEndian.Uint16(wire[off+3:]))
			typ := wire[off]
			if typ != 0x14 && typ != 0x17 {
				viol("C19.record", "record-desync", "client wire stream desynchronised: record type %#x at offset %d (a record length did not equal its payload)", typ, off)
				break
			}
			if off+5+n > len(wire) {
				viol("C19.record", "record-overrun", "record at offset %d announces %d bytes, only %d follow", off, n, len(wire)-off-5)
				break
			}
			off += 5 + n
		}
	})
	if out.Stuck && out.HarnessErr == "" && len(out.Violations) == 0 && out.Panic == "" {
		out.AddViolation("C19", "C19.stuck", "stuck", "FakeTLS streams never delivered everything (a record length did not match its payload): %v", out.StuckTasks)
	}
	return out
}
