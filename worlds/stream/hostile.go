package stream

import (
	"context"
	"encoding/binary"
	"fmt"
	"io"
	"testing"
	"time"

	"github.com/gotd/td/bin"
	"github.com/gotd/td/proto/codec"
	"github.com/gotd/td/transport"

	"verif/dst"
	"verif/simnet"
	"verif/simrt"
)

// frameLimit is the protocol's frame limit (16 MiB, transport documentation);
// allocBound allows for the allocator rounding capacity up.
const (
	frameLimit = 1 << 24
	allocBound = frameLimit + frameLimit/4 + 4096
)

// runHostile feeds the reading side of every codec with corrupted valid
// streams, aimed length prefixes and pure garbage. Oracle: a read returns a
// frame or an error, never panics, never allocates beyond the frame limit.
func runHostile(t *testing.T, tape *simrt.Tape, env dst.Env) *simrt.Outcome {
	ks := kinds()
	out := simrt.Run(t, tape, simrt.Options{Policy: -1}, func(s *simrt.Sim) {
		k := ks[tape.Choose(simrt.Cfg, len(ks))]
		via := tape.Choose(simrt.Cfg, 3) // 0 codec.Read directly, 1 transport connection (client side), 2 listener + accepted connection
		chunk := simrt.Pick(tape, simrt.Cfg, 0, 1, 3, 16)
		simrt.Ev("config", "codec=%s via=%d chunk=%d", k.name, via, chunk)
		simrt.Probe("codec:" + k.name)

		// build the hostile byte stream
		var stream []byte
		attack := tape.Choose(simrt.Fault, 6)
		valid := func(n int) []byte {
			// n valid frames produced by the real writer
			var buf writerBuf
			c := k.mk()
			for i := 0; i < n; i++ {
				b := &bin.Buffer{Buf: mkPayload(1, i, 8+4*tape.Choose(simrt.Wl, 40))}
				_ = c.Write(&buf, b)
			}
			return buf.b
		}
		class := ""
		switch attack {
		case 0: // aimed length prefix
			stream = valid(tape.Choose(simrt.Wl, 2))
			switch k.name {
			case "abridged":
				if tape.Coin(simrt.Fault, 1, 2) {
					stream = append(stream, 0x7f, byte(tape.Choose(simrt.Fault, 256)), byte(tape.Choose(simrt.Fault, 256)), byte(tape.Choose(simrt.Fault, 256)))
					class = "abridged long length"
				} else {
					stream = append(stream, byte(0x80+tape.Choose(simrt.Fault, 128)), 0xff, 0xff, 0xff)
					class = "abridged first byte >= 0x80"
				}
			default:
				var l [4]byte
				v := uint32(0)
				switch tape.Choose(simrt.Fault, 4) {
				case 0:
					v = uint32(tape.Choose(simrt.Fault, 16)) // 0..15: shorter than any header
					class = fmt.Sprintf("%s length prefix %d", k.name, v)
				case 1:
					v = uint32(frameLimit - 8 + tape.Choose(simrt.Fault, 16))
					class = k.name + " length prefix around the frame limit"
				case 2:
					v = 0x7fffffff - uint32(tape.Choose(simrt.Fault, 4))
					class = k.name + " length prefix near 2^31"
				default:
					v = 0x80000000 + uint32(tape.Choose(simrt.Fault, 1<<30))
					class = k.name + " length prefix with the sign bit"
				}
				binary.LittleEndian.PutUint32(l[:], v)
				stream = append(stream, l[:]...)
			}
			tail := make([]byte, tape.Choose(simrt.Fault, 64))
			tape.Fill(simrt.Fault, tail)
			stream = append(stream, tail...)
			simrt.FaultFired("garble-length", "%s", class)
		case 1: // bit flips in a valid stream
			stream = valid(1 + tape.Choose(simrt.Wl, 3))
			for n := 1 + tape.Choose(simrt.Fault, 3); n > 0 && len(stream) > 0; n-- {
				i := tape.Choose(simrt.Fault, len(stream))
				stream[i] ^= 1 << tape.Choose(simrt.Fault, 8)
			}
			class = k.name + " bit flips"
			simrt.FaultFired("bitflip", "")
		case 2: // truncation: EOF in the middle of a frame
			stream = valid(1 + tape.Choose(simrt.Wl, 3))
			stream = stream[:tape.Choose(simrt.Fault, len(stream)+1)]
			class = k.name + " truncated"
			simrt.FaultFired("truncate", "")
		case 3: // pure garbage
			stream = make([]byte, tape.Choose(simrt.Fault, 96))
			tape.Fill(simrt.Fault, stream)
			class = k.name + " garbage"
			simrt.FaultFired("garbage", "")
		case 4: // valid frames followed by garbage
			stream = valid(1 + tape.Choose(simrt.Wl, 2))
			tail := make([]byte, 1+tape.Choose(simrt.Fault, 32))
			tape.Fill(simrt.Fault, tail)
			stream = append(stream, tail...)
			class = k.name + " valid then garbage"
			simrt.FaultFired("extend", "")
		default: // short frames: every tiny payload length through the real framing
			stream = valid(0)
			n := tape.Choose(simrt.Fault, 12)
			switch k.name {
			case "abridged":
				stream = append(stream, byte(n))
			default:
				var l [4]byte
				binary.LittleEndian.PutUint32(l[:], uint32(n))
				stream = append(stream, l[:]...)
			}
			body := make([]byte, 4*n+8)
			tape.Fill(simrt.Fault, body)
			stream = append(stream, body...)
			class = fmt.Sprintf("%s tiny frame length %d", k.name, n)
			simrt.FaultFired("tiny-frame", "%d", n)
		}

		simrt.MarkBytes(stream)
		simrt.Mark(uint64(via), uint64(chunk))
		check := func(b *bin.Buffer, err error, where string) bool {
			if c := cap(b.Buf); c > allocBound {
				simrt.Violate("C17", "C17.alloc", "alloc "+k.name, "%s: reading %s allocated a %d-byte buffer for one frame (frame limit %d)", where, class, c, frameLimit)
				return false
			}
			return err == nil
		}
		reads := 0
		switch via {
		case 0:
			r := &chunkReader{data: stream, chunk: chunk, tape: tape}
			c := k.mk()
			var b bin.Buffer
			for reads < 16 {
				err := c.Read(r, &b)
				reads++
				simrt.Ev("read", "err=%v len=%d", err != nil, len(b.Buf))
				if !check(&b, err, "codec.Read") {
					break
				}
			}
		default:
			ln := simnet.NewListener("dc:443", simnet.Options{Chunk: chunk})
			ctx, cancel := context.WithTimeout(context.Background(), 5*time.Second)
			defer cancel()
			if via == 1 {
				// hostile server: the client reads
				raw, _ := ln.Dial(ctx)
				srv, _ := ln.Accept()
				cc, err := k.proto.Handshake(raw)
				if err != nil {
					return
				}
				_, _ = srv.Write(stream)
				_ = srv.(*simnet.Conn).CloseWrite()
				var b bin.Buffer
				for reads < 16 {
					err := cc.Recv(ctx, &b)
					reads++
					simrt.Ev("read", "err=%v len=%d", err != nil, len(b.Buf))
					if !check(&b, err, "transport Recv") {
						break
					}
				}
				_ = cc.Close()
			} else {
				// hostile client: the listener detects and the server reads
				raw, _ := ln.Dial(ctx)
				hdr := &writerBuf{}
				_ = k.mk().WriteHeader(hdr)
				if tape.Coin(simrt.Fault, 1, 4) {
					// garbage instead of a protocol header
					h := make([]byte, tape.Choose(simrt.Fault, 6))
					tape.Fill(simrt.Fault, h)
					hdr.b = h
				}
				_, _ = raw.Write(append(hdr.b, stream...))
				_ = raw.(*simnet.Conn).CloseWrite()
				sc, err := transport.Listen(ln).Accept()
				simrt.Ev("accept", "err=%v", err != nil)
				if err != nil {
					return
				}
				var b bin.Buffer
				for reads < 16 {
					err := sc.Recv(ctx, &b)
					reads++
					simrt.Ev("read", "err=%v len=%d", err != nil, len(b.Buf))
					if !check(&b, err, "accepted connection Recv") {
						break
					}
				}
				_ = sc.Close()
			}
		}
		simrt.Probe("class:" + class)
	})
	return out
}

type writerBuf struct{ b []byte }

func (w *writerBuf) Write(p []byte) (int, error) { w.b = append(w.b, p...); return len(p), nil }

// chunkReader serves data in tape-chosen pieces, then EOF.
type chunkReader struct {
	data  []byte
	chunk int
	tape  *simrt.Tape
}

func (r *chunkReader) Read(p []byte) (int, error) {
	if len(r.data) == 0 {
		return 0, io.EOF
	}
	n := len(p)
	if r.chunk > 0 {
		if k := 1 + r.tape.Choose(simrt.Net, r.chunk); k < n {
			n = k
		}
	}
	n = copy(p[:n], r.data)
	r.data = r.data[n:]
	return n, nil
}

var _ = codec.Abridged{}
