package stream

import (
	"bytes"
	"context"
	"encoding/binary"
	"fmt"
	"io"
	"testing"

	"github.com/gotd/td/mtproxy"
	"github.com/gotd/td/mtproxy/obfuscated2"

	"verif/dst"
	"verif/simnet"
	"verif/simrand"
	"verif/simrt"
)

// reserved first words of an unobfuscated connection (transport obfuscation
// documentation): the generated header must avoid them.
var reservedFirst = [][]byte{
	{0xef},
	[]byte("HEAD"), []byte("POST"), []byte("GET "), []byte("OPTI"),
	{0xdd, 0xdd, 0xdd, 0xdd}, {0xee, 0xee, 0xee, 0xee},
	{0x16, 0x03, 0x01, 0x02},
}

func runObfs(t *testing.T, tape *simrt.Tape, env dst.Env) *simrt.Outcome {
	out := simrt.Run(t, tape, simrt.Options{Policy: -1}, func(s *simrt.Sim) {
		viol := func(rule, sig, format string, args ...any) { simrt.Violate("C18", rule, sig, format, args...) }
		var tag [4]byte
		switch tape.Choose(simrt.Wl, 5) {
		case 0:
			tag = [4]byte{0xef, 0xef, 0xef, 0xef}
		case 1:
			tag = [4]byte{0xee, 0xee, 0xee, 0xee}
		case 2:
			tag = [4]byte{0xdd, 0xdd, 0xdd, 0xdd}
		default:
			tape.Fill(simrt.Wl, tag[:])
		}
		var dc int
		switch tape.Choose(simrt.Wl, 5) {
		case 0:
			dc = 1 + tape.Choose(simrt.Wl, 5)
		case 1:
			dc = -(1 + tape.Choose(simrt.Wl, 5))
		case 2:
			dc = 10000 + 1 + tape.Choose(simrt.Wl, 5)
		case 3:
			dc = -10000 - 1 - tape.Choose(simrt.Wl, 5)
		default:
			dc = tape.Choose(simrt.Wl, 1<<16) - 1<<15
		}
		var secret []byte
		switch tape.Choose(simrt.Wl, 3) {
		case 1:
			secret = make([]byte, 16)
			tape.Fill(simrt.Wl, secret)
		case 2:
			secret = make([]byte, 16+tape.Choose(simrt.Wl, 17))
			tape.Fill(simrt.Wl, secret)
		}
		chunk := simrt.Pick(tape, simrt.Cfg, 0, 1, 3, 16, 100)
		rnd := simrand.New(tape)
		if tape.Coin(simrt.Cfg, 2, 3) {
			// make the rejection loop run: the entropy source spells reserved words
			rnd.PrefixDen = 2
			rnd.Prefixes = append(append([][]byte{}, reservedFirst...), []byte{1, 2, 3, 4, 0, 0, 0, 0}, []byte{0xef, 1, 2, 3})
		}
		if tape.Coin(simrt.Cfg, 1, 4) {
			rnd.ShortDen = 3
		}
		simrt.Ev("config", "tag=%x dc=%d secret=%d chunk=%d", tag, dc, len(secret), chunk)

		a, b := simnet.Pipe("client", "proxy", simnet.Options{Chunk: chunk})
		var wire []byte
		a.Tap = func(c *simnet.Conn, p []byte) []byte {
			if len(wire) < 64 {
				wire = append(wire, p...)
			}
			return p
		}
		cli := obfuscated2.NewObfuscated2(rnd, a)
		type acc struct {
			rw   io.ReadWriter
			meta obfuscated2.Metadata
			err  error
		}
		accCh := make(chan acc, 1)
		simrt.Go("proxy-accept", func() {
			rw, md, err := obfuscated2.Accept(b, secret)
			simrt.Send(0, accCh, acc{rw, md, err})
		})
		if err := cli.Handshake(tag, dc, mtproxy.Secret{Secret: secret}); err != nil {
			viol("C18.handshake", "handshake", "client handshake failed: %v", err)
			return
		}
		r, _ := simrt.Recv(0, accCh)
		if r.err != nil {
			viol("C18.accept", "accept", "accept failed: %v", r.err)
			return
		}
		if r.meta.Protocol != tag || r.meta.DC != uint16(dc) {
			viol("C18.metadata", "metadata", "accepting side recovered protocol %x dc %d; client sent protocol %x dc %d (uint16 %d)", r.meta.Protocol, r.meta.DC, tag, dc, uint16(dc))
			return
		}
		// header on the wire
		if len(wire) < 64 {
			viol("C18.header", "short-header", "handshake wrote %d bytes, expected a 64-byte header", len(wire))
			return
		}
		for _, res := range reservedFirst {
			if bytes.HasPrefix(wire, res) {
				viol("C18.reserved", fmt.Sprintf("reserved %x", res), "handshake header starts with the reserved pattern %x (%q)", res, res)
			}
		}
		if binary.LittleEndian.Uint32(wire[4:8]) == 0 {
			viol("C18.reserved", "second-word-zero", "handshake header has a zero second word")
		}
		// both byte streams, under arbitrary write sizes and read chunking
		done := make(chan struct{}, 2)
		pump := func(name string, w io.Writer, rd io.Reader, seed int) {
			total := 0
			var sizes []int
			for n := tape.Range(simrt.Wl, 1, 4); n > 0; n-- {
				sz := simrt.Pick(tape, simrt.Wl, 1, 3, 16, 64, 1000, 4096) + tape.Choose(simrt.Wl, 5)
				sizes = append(sizes, sz)
				total += sz
			}
			simrt.Go(name+"-writer", func() {
				off := 0
				for _, sz := range sizes {
					p := make([]byte, sz)
					for i := range p {
						p[i] = byte((off+i)*7 + seed)
					}
					if _, err := w.Write(p); err != nil {
						viol("C18.write", "write", "%s write failed: %v", name, err)
						return
					}
					off += sz
				}
			})
			simrt.Go(name+"-reader", func() {
				defer func() { simrt.Send(0, done, struct{}{}) }()
				got := 0
				buf := make([]byte, 1+tape.Choose(simrt.Wl, 2048))
				for got < total {
					n, err := rd.Read(buf)
					for i := 0; i < n; i++ {
						if buf[i] != byte((got+i)*7+seed) {
							viol("C18.stream", "stream "+name, "%s: byte %d read back as %#x, written %#x", name, got+i, buf[i], byte((got+i)*7+seed))
							return
						}
					}
					got += n
					if err != nil {
						viol("C18.read", "read", "%s read failed after %d of %d bytes: %v", name, got, total, err)
						return
					}
				}
			})
		}
		pump("client-to-proxy", cli, r.rw, 1)
		pump("proxy-to-client", r.rw, cli, 2)
		simrt.Recv(0, done)
		simrt.Recv(0, done)
		_ = context.Background()
	})
	if out.Stuck && out.HarnessErr == "" && len(out.Violations) == 0 && out.Panic == "" {
		out.AddViolation("C18", "C18.stuck", "stuck", "obfuscated streams never delivered everything: %v", out.StuckTasks)
	}
	return out
}
