package stream

import (
	"context"
	"encoding/binary"
	"errors"
	"fmt"
	"io"
	"net"
	"reflect"
	"testing"

	"github.com/gotd/td/bin"
	"github.com/gotd/td/mtproxy"
	"github.com/gotd/td/mtproxy/obfuscator"
	"github.com/gotd/td/proto/codec"
	"github.com/gotd/td/transport"

	"verif/dst"
	"verif/simnet"
	"verif/simrand"
	"verif/simrt"
)

type codecKind struct {
	name  string
	proto transport.Protocol
	mk    func() transport.Codec
	tag   [4]byte
	tagOK bool
}

func kinds() []codecKind {
	return []codecKind{
		{"abridged", transport.Abridged, func() transport.Codec { return codec.Abridged{} }, codec.Abridged{}.ObfuscatedTag(), true},
		{"intermediate", transport.Intermediate, func() transport.Codec { return codec.Intermediate{} }, codec.IntermediateClientStart, true},
		{"padded", transport.PaddedIntermediate, func() transport.Codec { return codec.PaddedIntermediate{} }, codec.PaddedIntermediateClientStart, true},
		{"full", transport.Full, func() transport.Codec { return &codec.Full{} }, [4]byte{}, false},
	}
}

// frame payload: sender u16 | index u16 | total length u32 | filler f(sender,index,pos)
func mkPayload(sender, index, size int) []byte {
	p := make([]byte, size)
	binary.LittleEndian.PutUint16(p[0:], uint16(sender))
	binary.LittleEndian.PutUint16(p[2:], uint16(index))
	binary.LittleEndian.PutUint32(p[4:], uint32(size))
	for i := 8; i < size; i++ {
		p[i] = byte(sender*31 + index*7 + i)
	}
	return p
}

func checkPayload(p []byte) (sender, index int, err error) {
	if len(p) < 8 {
		return 0, 0, fmt.Errorf("frame of %d bytes", len(p))
	}
	sender = int(binary.LittleEndian.Uint16(p[0:]))
	index = int(binary.LittleEndian.Uint16(p[2:]))
	size := int(binary.LittleEndian.Uint32(p[4:]))
	if size != len(p) {
		return sender, index, fmt.Errorf("frame says %d bytes, has %d", size, len(p))
	}
	for i := 8; i < size; i++ {
		if p[i] != byte(sender*31+index*7+i) {
			return sender, index, fmt.Errorf("byte %d of frame (sender %d index %d size %d) is %#x, sent %#x", i, sender, index, size, p[i], byte(sender*31+index*7+i))
		}
	}
	return sender, index, nil
}

func pickSize(tape *simrt.Tape, small bool, tier string) int {
	switch tape.Choose(simrt.Wl, 8) {
	case 0, 1, 2:
		return 8 + 4*tape.Choose(simrt.Wl, 64)
	case 3:
		return 4 * (124 + tape.Choose(simrt.Wl, 6)) // around the abridged 1-byte/4-byte length switch (4*127)
	case 4:
		return 1012 + 4*tape.Choose(simrt.Wl, 6)
	case 5:
		if small {
			return 8 + 4*tape.Choose(simrt.Wl, 1000)
		}
		return 65528 + 4*tape.Choose(simrt.Wl, 5)
	case 6:
		if small {
			return 2048 + 4*tape.Choose(simrt.Wl, 512)
		}
		if tier == "thorough" && tape.Coin(simrt.Wl, 1, 8) {
			return 1 << 24 // the protocol's frame limit
		}
		return 1<<20 + 4*tape.Choose(simrt.Wl, 3)
	default:
		return 8 + 4*tape.Choose(simrt.Wl, 400)
	}
}

type item struct {
	size int
	code int32 // != 0: a 4-byte transport error frame carrying -code
}

func runFrames(t *testing.T, tape *simrt.Tape, env dst.Env) *simrt.Outcome {
	ks := kinds()
	var viol func(rule, sig, format string, args ...any)
	out := simrt.Run(t, tape, simrt.Options{Policy: -1}, func(s *simrt.Sim) {
		viol = func(rule, sig, format string, args ...any) { simrt.Violate("C16", rule, sig, format, args...) }
		k := ks[tape.Choose(simrt.Cfg, len(ks))]
		mode := tape.Choose(simrt.Cfg, 3) // 0 Handshake+Listen(detect), 1 Handshake+ListenCodec, 2 NoHeader both
		obfs := k.tagOK && mode == 0 && tape.Coin(simrt.Cfg, 1, 3)
		chunk := simrt.Pick(tape, simrt.Cfg, 0, 1, 2, 5, 17, 1024, 0)
		small := chunk != 0 && chunk < 1024
		nSenders := tape.Range(simrt.Cfg, 1, 3)
		simrt.Ev("config", "codec=%s mode=%d obfs=%v chunk=%d senders=%d", k.name, mode, obfs, chunk, nSenders)
		simrt.Probe("codec:" + k.name)
		simrt.Probe(fmt.Sprintf("mode:%d obfs:%v", mode, obfs))

		// workload
		plans := make([][]item, nSenders+1) // index 0: server -> client
		for si := range plans {
			n := tape.Range(simrt.Wl, 1, 5)
			for j := 0; j < n; j++ {
				it := item{size: pickSize(tape, small, env.Tier)}
				if k.name == "full" && it.size > 1<<24-12 {
					// the limit applies to the frame: full adds length, seqno and crc
					it.size = 1<<24 - 12
				}
				if si == 0 && tape.Coin(simrt.Wl, 1, 4) {
					it = item{size: 4, code: int32(simrt.Pick(tape, simrt.Wl, 404, 429, 444, 1+tape.Choose(simrt.Wl, 1000)))}
				}
				plans[si] = append(plans[si], it)
			}
		}

		ln := simnet.NewListener("dc:443", simnet.Options{Chunk: chunk})
		ctx := context.Background()
		var sc, cc transport.Conn
		acc := make(chan error, 1)
		simrt.Go("server-accept", func() {
			var l transport.Listener
			switch {
			case obfs:
				l = transport.Listen(transport.ObfuscatedListener(ln))
			case mode == 0:
				l = transport.Listen(ln)
			case mode == 1:
				l = transport.ListenCodec(k.mk, ln)
			default:
				l = transport.ListenCodec(func() transport.Codec { return codec.NoHeader{Codec: k.mk()} }, ln)
			}
			c, err := l.Accept()
			sc = c
			simrt.Send(0, acc, err)
		})
		raw, err := ln.Dial(ctx)
		if err != nil {
			panic(err)
		}
		proto := k.proto
		if obfs {
			o := obfuscator.Obfuscated2(simrand.New(tape), raw)
			if err := o.Handshake(k.tag, 2, mtproxy.Secret{}); err != nil {
				viol("C16.handshake", "obfs-handshake", "obfuscated2 handshake failed: %v", err)
				return
			}
			raw = wrapRW{raw, o}
			proto = transport.NewProtocol(func() transport.Codec { return codec.NoHeader{Codec: k.mk()} })
		} else if mode == 2 {
			proto = transport.NewProtocol(func() transport.Codec { return codec.NoHeader{Codec: k.mk()} })
		}
		cc, err = proto.Handshake(raw)
		if err != nil {
			viol("C16.handshake", "handshake", "transport handshake failed: %v", err)
			return
		}
		// the listener only learns the protocol from the first bytes: make sure
		// something is on the wire even if the client has nothing to say yet
		sendErrs := make(chan error, 8)
		for si := 1; si <= nSenders; si++ {
			si := si
			simrt.Go(fmt.Sprintf("client-sender%d", si), func() {
				for j, it := range plans[si] {
					b := &bin.Buffer{Buf: mkPayload(si, j, it.size)}
					simrt.Ev("send", "sender=%d index=%d size=%d", si, j, it.size)
					if err := cc.Send(ctx, b); err != nil {
						simrt.Send(0, sendErrs, fmt.Errorf("client sender %d frame %d (%d bytes): %w", si, j, it.size, err))
						return
					}
				}
				simrt.Send(0, sendErrs, nil)
			})
		}
		if err, _ := simrt.Recv(0, acc); err != nil {
			viol("C16.accept", "accept", "listener failed to accept a %s client (mode %d, obfuscated %v): %v", k.name, mode, obfs, err)
			return
		}
		// protocol detection
		want := reflect.TypeOf(k.mk())
		got := transport.VerifCodecOf(sc)
		if nh, ok := got.(codec.NoHeader); ok {
			got = nh.Codec
		}
		if reflect.TypeOf(got) != want {
			viol("C16.detect", "detect "+k.name, "listener detected codec %T for a client speaking %s", got, k.name)
			return
		}
		simrt.Go("server-sender", func() {
			for j, it := range plans[0] {
				var b *bin.Buffer
				if it.code != 0 {
					b = &bin.Buffer{}
					b.PutInt32(-it.code)
				} else {
					b = &bin.Buffer{Buf: mkPayload(0, j, it.size)}
				}
				simrt.Ev("send", "server index=%d size=%d code=%d", j, it.size, it.code)
				if err := sc.Send(ctx, b); err != nil {
					simrt.Send(0, sendErrs, fmt.Errorf("server frame %d (%d bytes): %w", j, it.size, err))
					return
				}
			}
			simrt.Send(0, sendErrs, nil)
		})
		done := make(chan struct{}, 2)
		// server receives the client frames
		total := 0
		for si := 1; si <= nSenders; si++ {
			total += len(plans[si])
		}
		simrt.Go("server-receiver", func() {
			defer func() { simrt.Send(0, done, struct{}{}) }()
			next := map[int]int{}
			var b bin.Buffer
			for n := 0; n < total; n++ {
				if err := sc.Recv(ctx, &b); err != nil {
					viol("C16.recv-error", "recv-error "+k.name, "server Recv failed after %d of %d frames: %v", n, total, err)
					return
				}
				si, idx, err := checkPayload(b.Buf)
				if err != nil {
					viol("C16.corrupt", "corrupt "+k.name, "server received a frame that was never sent: %v", err)
					return
				}
				if si < 1 || si > nSenders || idx != next[si] || idx >= len(plans[si]) || plans[si][idx].size != len(b.Buf) {
					viol("C16.order", "order "+k.name, "server received frame sender=%d index=%d size=%d; expected index %d of that sender", si, idx, len(b.Buf), next[si])
					return
				}
				next[si]++
				simrt.Ev("recv", "server got sender=%d index=%d size=%d", si, idx, len(b.Buf))
			}
		})
		simrt.Go("client-receiver", func() {
			defer func() { simrt.Send(0, done, struct{}{}) }()
			var b bin.Buffer
			for j, it := range plans[0] {
				err := cc.Recv(ctx, &b)
				if it.code != 0 {
					var pe *codec.ProtocolErr
					if !errors.As(err, &pe) || pe.Code != it.code {
						viol("C16.error-frame", "error-frame "+k.name, "4-byte frame carrying %d was reported as %v (want *codec.ProtocolErr with code %d)", -it.code, err, it.code)
						return
					}
					simrt.Ev("recv", "client got error code %d", pe.Code)
					continue
				}
				if err != nil {
					viol("C16.recv-error", "recv-error "+k.name, "client Recv failed at frame %d: %v", j, err)
					return
				}
				si, idx, perr := checkPayload(b.Buf)
				if perr != nil || si != 0 || idx != j || len(b.Buf) != it.size {
					viol("C16.corrupt", "corrupt "+k.name, "client received sender=%d index=%d size=%d err=%v; expected server frame %d of %d bytes", si, idx, len(b.Buf), perr, j, it.size)
					return
				}
				simrt.Ev("recv", "client got index=%d size=%d", idx, len(b.Buf))
			}
		})
		for i := 0; i < nSenders+1; i++ {
			if err, _ := simrt.Recv(0, sendErrs); err != nil {
				viol("C16.send-error", "send-error "+k.name, "%v", err)
			}
		}
		simrt.Recv(0, done)
		simrt.Recv(0, done)
		_ = cc.Close()
		_ = sc.Close()
	})
	if out.Stuck && out.HarnessErr == "" && len(out.Violations) == 0 && out.Panic == "" {
		out.AddViolation("C16", "C16.stuck", "stuck", "frames were sent but never all delivered: %v", out.StuckTasks)
	}
	return out
}

// wrapRW is a net.Conn whose Read/Write go through an obfuscator.
type wrapRW struct {
	net.Conn
	rw io.ReadWriter
}

func (w wrapRW) Read(p []byte) (int, error)  { return w.rw.Read(p) }
func (w wrapRW) Write(p []byte) (int, error) { return w.rw.Write(p) }
