// Package stream is world W8: the real transport codecs, transport
// connection/listener/codec detection, obfuscated2 and FakeTLS over a
// simulated byte-stream network with arbitrary chunking, concurrent senders
// and corrupting/hostile peers. Decides C16, C17, C18, C19.
package stream

import (
	"testing"

	"verif/dst"
	"verif/simrt"
)

var World = dst.World{
	Name:  "stream",
	Props: []string{"C16", "C17", "C18", "C19"},
	Run:   run,
	Real: []string{"proto/codec (abridged, intermediate, padded intermediate, full, NoHeader)", "transport.Protocol.Handshake, transport.Listen/ListenCodec (codec detection), transport.ObfuscatedListener, transport connection Send/Recv",
		"mtproxy/obfuscated2 (client handshake, Accept, stream ciphers)", "mtproxy/faketls (client hello, server hello check, record layer)", "crypto.DefaultRand (hooked to the tape)"},
	Stub: []string{"byte-stream network (simnet: chunked reads, corruption, truncation, hostile bytes)", "FakeTLS proxy side (server hello writer written from the MTProxy description)", "sender/receiver tasks"},
}

func run(t *testing.T, tape *simrt.Tape, env dst.Env) *simrt.Outcome {
	scen := env.Prop
	if scen == "" {
		scen = simrt.Pick(tape, simrt.Cfg, "C16", "C17", "C18", "C19")
	}
	var out *simrt.Outcome
	switch scen {
	case "C16":
		out = runFrames(t, tape, env)
	case "C17":
		out = runHostile(t, tape, env)
	case "C18":
		out = runObfs(t, tape, env)
	default:
		out = runTLS(t, tape, env)
	}
	if out.HarnessErr == "" && out.Panic != "" {
		if out.PanicInRepo() {
			// any panic of the code under test while reading a stream is what C17 forbids
			out.AddViolation("C17", "C17.panic", "panic scenario="+scen, "transport code panicked in task %s: %s", out.PanicTask, out.PanicLine())
			if scen != "C17" {
				out.AddViolation(scen, scen+".panic", "panic", "transport code panicked in task %s: %s", out.PanicTask, out.PanicLine())
			}
		} else {
			out.HarnessErr = "panic in world stream (" + scen + "): " + out.Panic
		}
	}
	return out
}
