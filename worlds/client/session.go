package client

import (
	"bytes"
	"context"
	"crypto/x509"
	_ "embed"
	"encoding/pem"
	"errors"
	"fmt"
	"testing"
	"time"

	"github.com/cenkalti/backoff/v4"

	"github.com/gotd/td/bin"
	"github.com/gotd/td/crypto"
	"github.com/gotd/td/mtproto"
	"github.com/gotd/td/pool"
	"github.com/gotd/td/session"
	"github.com/gotd/td/telegram"
	"github.com/gotd/td/tg"
	"github.com/gotd/td/tgerr"
	"github.com/gotd/td/transport"

	"verif/dst"
	"verif/simrand"
	"verif/simrt"
)

// ---- C30 ------------------------------------------------------------------------------------
//
// The real telegram.Client with its connection constructor replaced (overlay
// export VerifSetConstructor): every connection the client asks for - primary,
// same-DC pool, other DC, CDN - is a fake that owns a distinct key, permanent
// key and salt and fires the session notification the real manager.Conn would.

//go:embed testdata/cdn.pem
var cdnPEM []byte

const (
	dcHome  = 2
	dcOther = 4
	dcCDN   = 203
)

type triple struct {
	dc   int
	key  crypto.AuthKey // the key a saved session must hold (permanent key under PFS)
	salt int64
	conn int
	cdn  bool
}

type fconn struct {
	w     *w30
	n     int
	spec  telegram.VerifConnSpec
	ready chan struct{}
	isUp  bool
	cmd   chan string
	key   crypto.AuthKey
	perm  crypto.AuthKey
	salt  int64
	ran   bool
	dead  bool
}

type w30 struct {
	tape     *simrt.Tape
	conns    []*fconn
	triples  []triple
	primary  map[int]bool // DCs that have been the primary DC
	migrate  int          // >0: the primary answers the next tagged request with USER_MIGRATE_<dc>
	pfs      bool
	corrupt  crypto.Key // key bytes of a corrupted stored session (zero: none)
	restored *session.Data
}

func (w *w30) freshKey() crypto.AuthKey {
	var k crypto.Key
	w.tape.Fill(simrt.Wl, k[:])
	return k.WithID()
}

func (w *w30) cfg(dc int) tg.Config {
	return tg.Config{ThisDC: dc, DCOptions: []tg.DCOption{
		{ID: dcHome, IPAddress: "10.0.0.2", Port: 443}, {ID: dcOther, IPAddress: "10.0.0.4", Port: 443},
		{ID: dcCDN, IPAddress: "10.0.0.203", Port: 443, CDN: true},
	}}
}

func (f *fconn) cdn() bool { return f.spec.Mode == 2 }

func (f *fconn) emit() {
	s := mtproto.Session{ID: int64(f.n), Key: f.key, Salt: f.salt, PermKey: f.perm}
	save := f.key
	if !f.perm.Zero() {
		save = f.perm
	}
	f.w.triples = append(f.w.triples, triple{dc: f.spec.DC, key: save, salt: f.salt, conn: f.n, cdn: f.cdn()})
	simrt.Ev("session-notification", "conn %d dc=%d cdn=%v salt=%d key=%x", f.n, f.spec.DC, f.cdn(), f.salt, save.ID)
	if err := f.spec.Handler.OnSession(f.w.cfg(f.spec.DC), s); err != nil {
		simrt.Ev("session-notification-error", "conn %d: %v", f.n, err)
	}
}

func (f *fconn) Run(ctx context.Context) error {
	w := f.w
	f.ran = true
	o := f.spec.Opts
	if w.corrupt != (crypto.Key{}) && (o.Key.Value == w.corrupt || o.PermKey.Value == w.corrupt) {
		simrt.Violate("C30", "C30.corrupted-used", "corrupted-used", "connection %d to DC %d was started with the key of a stored session whose key id does not match its key", f.n, f.spec.DC)
	}
	simrt.Sleep(0, time.Duration(w.tape.Choose(simrt.Net, 4))*50*time.Millisecond)
	if o.EnablePFS && !f.cdn() {
		f.perm = o.PermKey
		if f.perm.Zero() {
			f.perm = w.freshKey()
		}
		f.key = w.freshKey() // temporary key
	} else {
		f.key = o.Key
		if f.key.Zero() {
			f.key = w.freshKey()
		}
	}
	f.salt = o.Salt
	if f.salt == 0 {
		f.salt = 1000 + int64(f.n)*100
	}
	simrt.Ev("conn-up", "conn %d dc=%d mode=%d restored-key=%v", f.n, f.spec.DC, f.spec.Mode, !o.Key.Zero() || !o.PermKey.Zero())
	up := func() {
		if !f.isUp {
			f.isUp = true
			close(f.ready)
		}
	}
	if w.tape.Coin(simrt.Sched, 1, 2) {
		up()
		f.emit()
	} else {
		f.emit()
		up()
	}
	for {
		i, rv, _ := simrt.Select(0, false, simrt.SelRecv(f.cmd), simrt.SelRecv(ctx.Done()))
		if i == 1 {
			f.dead = true
			return ctx.Err()
		}
		switch simrt.RecvVal(f.cmd, rv) {
		case "resalt":
			f.salt += 1 + int64(w.tape.Choose(simrt.Wl, 5))
			f.emit()
		case "kill":
			f.dead = true
			err := errors.New("sim: connection reset")
			if f.spec.OnDead != nil {
				f.spec.OnDead(err)
			}
			return err
		}
	}
}

func (f *fconn) Ready() <-chan struct{} { return f.ready }

func (f *fconn) Ping(ctx context.Context) error { return nil }

func (f *fconn) Invoke(ctx context.Context, in bin.Encoder, out bin.Decoder) error {
	if i, _, _ := simrt.Select(0, false, simrt.SelRecv(f.ready), simrt.SelRecv(ctx.Done())); i == 1 {
		return ctx.Err()
	}
	if f.dead {
		return pool.ErrConnDead
	}
	reply := func(e bin.Encoder) error {
		var b bin.Buffer
		if err := e.Encode(&b); err != nil {
			return err
		}
		return out.Decode(&b)
	}
	switch r := in.(type) {
	case tagReq:
		if f.spec.Mode == 0 { // the primary connection (updates mode)
			if dc := f.w.migrate; dc > 0 && f.spec.DC != dc {
				simrt.Ev("server", "conn %d answers USER_MIGRATE_%d", f.n, dc)
				return tgerr.New(303, fmt.Sprintf("USER_MIGRATE_%d", dc))
			}
		}
		var b bin.Buffer
		b.Put(respBody(r.tag))
		return out.Decode(&b)
	case *tg.AuthExportAuthorizationRequest:
		// not logged in: the client skips the import and still returns the pool
		return tgerr.New(401, "AUTH_KEY_UNREGISTERED")
	case *tg.HelpGetCDNConfigRequest:
		blk, _ := pem.Decode(cdnPEM)
		k, err := x509.ParsePKCS1PrivateKey(blk.Bytes)
		if err != nil {
			panic(err)
		}
		pub := pem.EncodeToMemory(&pem.Block{Type: "RSA PUBLIC KEY", Bytes: x509.MarshalPKCS1PublicKey(&k.PublicKey)})
		return reply(&tg.CDNConfig{PublicKeys: []tg.CDNPublicKey{{DCID: dcCDN, PublicKey: string(pub)}}})
	}
	return tgerr.New(400, "METHOD_INVALID")
}

type noResolver struct{}

func (noResolver) fail() (transport.Conn, error) { return nil, errors.New("sim: no real dialing in C30") }

func runC30(t *testing.T, tape *simrt.Tape, env dst.Env) *simrt.Outcome {
	return simrt.Run(t, tape, simrt.Options{Policy: -1}, func(s *simrt.Sim) {
		viol := func(rule, sig, format string, args ...any) { simrt.Violate("C30", rule, sig, format, args...) }
		w := &w30{tape: tape, primary: map[int]bool{dcHome: true}, pfs: tape.Coin(simrt.Cfg, 1, 2)}
		st := &memStorage{}
		ld := session.Loader{Storage: st}
		// a stored session from an earlier life: none, sound, or corrupted
		stored := tape.Choose(simrt.Cfg, 4)
		var storedKey crypto.AuthKey
		storedDC := simrt.Pick(tape, simrt.Cfg, dcHome, dcOther, 0)
		corruptWhat := ""
		if stored > 0 {
			storedKey = w.freshKey()
			d := &session.Data{DC: storedDC, AuthKey: append([]byte(nil), storedKey.Value[:]...), AuthKeyID: append([]byte(nil), storedKey.ID[:]...), Salt: 77}
			if stored == 3 {
				switch tape.Choose(simrt.Fault, 7) {
				case 6:
					d.AuthKey, d.AuthKeyID = make([]byte, 256), make([]byte, 8)
					corruptWhat = "key and key id both wiped (all zero)"
				case 4:
					d.AuthKey = make([]byte, 256)
					corruptWhat = "key bytes wiped (all zero), key id kept"
				case 5:
					d.AuthKeyID = make([]byte, 8)
					corruptWhat = "key id wiped (all zero), key kept"
				case 0:
					d.AuthKey[tape.Choose(simrt.Fault, 256)] ^= 1 << tape.Choose(simrt.Fault, 8)
					corruptWhat = "bit flip in the key"
				case 1:
					d.AuthKeyID[tape.Choose(simrt.Fault, 8)] ^= 1 << tape.Choose(simrt.Fault, 8)
					corruptWhat = "bit flip in the key id"
				case 2:
					d.AuthKey = d.AuthKey[:255-tape.Choose(simrt.Fault, 200)]
					corruptWhat = "truncated key"
					if bytes.Equal(storedKey.Value[len(d.AuthKey):], make([]byte, 256-len(d.AuthKey))) {
						// only zero bytes were cut off: zero-padding restores the key,
						// so cut into the non-zero part as well
						for len(d.AuthKey) > 1 && d.AuthKey[len(d.AuthKey)-1] == 0 {
							d.AuthKey = d.AuthKey[:len(d.AuthKey)-1]
						}
						d.AuthKey = d.AuthKey[:len(d.AuthKey)-1]
					}
				default:
					other := w.freshKey()
					d.AuthKeyID = append([]byte(nil), other.ID[:]...)
					corruptWhat = "key id of another key"
				}
				copy(w.corrupt[:], d.AuthKey)
				simrt.FaultFired("stored-session-corrupted", "%s", corruptWhat)
			}
			if err := ld.Save(context.Background(), d); err != nil {
				panic(err)
			}
			st.history = nil
		}
		if storedDC != 0 && stored > 0 && stored < 3 {
			w.primary[storedDC] = true
		}
		st.onStore = func(b []byte) {
			d, err := (&session.Loader{Storage: &memStorage{cur: b}}).Load(context.Background())
			if err != nil {
				viol("C30.unreadable", "unreadable", "the client stored a session that does not load: %v", err)
				return
			}
			var k crypto.AuthKey
			copy(k.Value[:], d.AuthKey)
			copy(k.ID[:], d.AuthKeyID)
			simrt.Ev("store", "dc=%d key=%x salt=%d", d.DC, d.AuthKeyID, d.Salt)
			if len(d.AuthKey) != 256 || k.Value.ID() != k.ID {
				viol("C30.key-id", "key-id", "stored session: key id %x does not belong to the stored key (%d bytes)", d.AuthKeyID, len(d.AuthKey))
				return
			}
			ok, keyKnown, cdn, dcOfKey := false, false, false, 0
			for _, tr := range w.triples {
				if tr.key.Value == k.Value {
					keyKnown, dcOfKey = true, tr.dc
					cdn = cdn || tr.cdn
					if tr.dc == d.DC && tr.salt == d.Salt && !tr.cdn {
						ok = true
					}
				}
			}
			switch {
			case !keyKnown:
				viol("C30.unconfirmed", "unconfirmed-key", "stored session for DC %d holds key %x, which no connection ever confirmed", d.DC, d.AuthKeyID)
			case cdn:
				viol("C30.unconfirmed", "cdn-key", "stored session for DC %d holds the key of a CDN connection (DC %d)", d.DC, dcOfKey)
			case !ok:
				viol("C30.unconfirmed", "mismatched-triple", "stored session pairs DC %d, key %x and salt %d; that key was confirmed by a connection to DC %d and never with this DC and salt together", d.DC, d.AuthKeyID, d.Salt, dcOfKey)
			case !w.primary[d.DC]:
				viol("C30.non-primary", "non-primary", "stored session is for DC %d, which has never been the primary DC (primary so far: %v)", d.DC, keysOf(w.primary))
			}
		}
		opts := telegram.Options{
			DC: dcHome, Resolver: resolver{func(ctx context.Context, dc int) (transport.Conn, error) { return noResolver{}.fail() }}, SessionStorage: st,
			// updates mode, so that the primary connection is recognisable (mode 0)
			UpdateHandler: telegram.UpdateHandlerFunc(func(context.Context, tg.UpdatesClass) error { return nil }),
			Random: simrand.New(tape), Clock: &simClock{}, EnablePFS: w.pfs, MigrationTimeout: 20 * time.Second,
			ReconnectionBackoff: func() backoff.BackOff { return backoff.NewConstantBackOff(200 * time.Millisecond) },
		}
		cli := telegram.NewClient(1, "hash", opts)
		telegram.VerifSetConstructor(cli, func(spec telegram.VerifConnSpec) pool.Conn {
			f := &fconn{w: w, n: len(w.conns) + 1, spec: spec, ready: make(chan struct{}), cmd: make(chan string, 8)}
			w.conns = append(w.conns, f)
			simrt.Ev("conn-created", "conn %d dc=%d mode=%d", f.n, spec.DC, spec.Mode)
			return f
		})
		ctx, cancel := context.WithCancel(context.Background())
		defer cancel()
		callbackRan := false
		runDone := make(chan error, 1)
		simrt.Go("client.Run", func() {
			err := cli.Run(ctx, func(ctx context.Context) error {
				callbackRan = true
				tagN := int64(0)
				invokeOn := func(inv tg.Invoker, what string) {
					tagN++
					var out tagResp
					cctx, cc := context.WithTimeout(ctx, 30*time.Second)
					defer cc()
					err := inv.Invoke(cctx, tagReq{tagN}, &out)
					simrt.Ev("invoke", "%s: err=%v", what, err)
				}
				live := func() []*fconn {
					var l []*fconn
					for _, f := range w.conns {
						if f.isUp && !f.dead {
							l = append(l, f)
						}
					}
					return l
				}
				nOps := tape.Range(simrt.Wl, 2, 9)
				done := make(chan struct{}, 16)
				spawned := 0
				for i := 0; i < nOps; i++ {
					op := tape.Choose(simrt.Wl, 8)
					run := func(name string, f func()) {
						if tape.Coin(simrt.Sched, 1, 2) {
							spawned++
							simrt.Go(name, func() { f(); simrt.Send(0, done, struct{}{}) })
						} else {
							f()
						}
					}
					switch op {
					case 0:
						run("other-dc", func() {
							p, err := cli.DC(ctx, dcOther, 1)
							if err == nil {
								invokeOn(p, "other DC pool")
							} else {
								simrt.Ev("op", "DC(%d): %v", dcOther, err)
							}
						})
					case 1:
						run("same-dc-pool", func() {
							p, err := cli.Pool(1)
							if err == nil {
								invokeOn(p, "same DC pool")
							}
						})
					case 2:
						run("cdn", func() {
							p, err := cli.CDN(ctx, dcCDN, 1)
							if err == nil {
								invokeOn(p, "CDN pool")
							} else {
								simrt.Ev("op", "CDN(%d): %v", dcCDN, err)
							}
						})
					case 3:
						target := dcOther
						if cur := lastPrimary(w); cur == dcOther {
							target = dcHome
						}
						w.primary[target] = true
						simrt.FaultFired("migration", "to DC %d", target)
						if tape.Coin(simrt.Wl, 1, 2) {
							run("migrate", func() {
								cctx, cc := context.WithTimeout(ctx, 30*time.Second)
								defer cc()
								err := cli.MigrateTo(cctx, target)
								simrt.Ev("op", "MigrateTo(%d): %v", target, err)
							})
						} else {
							w.migrate = target
							run("migrate-by-error", func() { invokeOn(cli, "primary (answers USER_MIGRATE)") })
						}
					case 4:
						if l := live(); len(l) > 0 {
							f := l[tape.Choose(simrt.Wl, len(l))]
							simrt.FaultFired("conn-kill", "conn %d (dc %d mode %d)", f.n, f.spec.DC, f.spec.Mode)
							simrt.Send(0, f.cmd, "kill")
						}
					case 5, 6:
						if l := live(); len(l) > 0 {
							f := l[tape.Choose(simrt.Wl, len(l))]
							simrt.FaultFired("session-renotified", "conn %d (dc %d mode %d)", f.n, f.spec.DC, f.spec.Mode)
							simrt.Send(0, f.cmd, "resalt")
						}
					default:
						run("primary-invoke", func() { invokeOn(cli, "primary") })
					}
					simrt.Sleep(0, time.Duration(tape.Choose(simrt.Wl, 4))*100*time.Millisecond)
				}
				for i := 0; i < spawned; i++ {
					simrt.Select(0, false, simrt.SelRecv(done), simrt.SelRecv(time.After(40*time.Second)))
				}
				simrt.Sleep(0, time.Second)
				return nil
			})
			simrt.Ev("client-run-return", "err=%v", err)
			simrt.Send(0, runDone, err)
		})
		var runErr error
		if i, rv, _ := simrt.Select(0, false, simrt.SelRecv(runDone), simrt.SelRecv(time.After(10*time.Minute))); i == 0 {
			runErr = simrt.RecvVal(runDone, rv)
		} else {
			panic("harness: client.Run did not return")
		}
		cancel()
		// restore oracle
		switch {
		case stored == 3:
			if runErr == nil || callbackRan {
				viol("C30.corrupted-accepted", "corrupted-accepted "+corruptWhat, "a stored session with %s was not refused: Run returned %v, callback ran: %v", corruptWhat, runErr, callbackRan)
			}
		case stored > 0:
			if len(w.conns) == 0 {
				break
			}
			// the primary connection used after restoring must carry the stored key and DC
			var first *fconn
			for _, f := range w.conns {
				if f.ran {
					first = f
					break
				}
			}
			if first != nil {
				got := first.spec.Opts.Key
				if w.pfs {
					got = first.spec.Opts.PermKey
				}
				wantDC := storedDC
				if wantDC == 0 {
					wantDC = dcHome
				}
				if got.Value != storedKey.Value || first.spec.DC != wantDC {
					viol("C30.not-restored", "not-restored", "a sound stored session (DC %d, key %x) was not used: the first connection went to DC %d with key %x", storedDC, storedKey.ID, first.spec.DC, got.ID)
				}
			}
		}
		_ = bytes.Equal
	})
}

func lastPrimary(w *w30) int {
	for i := len(w.conns) - 1; i >= 0; i-- {
		if w.conns[i].spec.Mode == 0 {
			return w.conns[i].spec.DC
		}
	}
	return dcHome
}

func keysOf(m map[int]bool) []int {
	var out []int
	for _, k := range []int{dcHome, dcOther, dcCDN, 0} {
		if m[k] {
			out = append(out, k)
		}
	}
	return out
}
