package client

import (
	"testing"

	"verif/dst"
	"verif/simrt"
)

func runC30(t *testing.T, tape *simrt.Tape, env dst.Env) *simrt.Outcome {
	return simrt.Run(t, tape, simrt.Options{Policy: -1}, func(s *simrt.Sim) {})
}
