// Frame-level link, scripted server endpoint and helpers: a copy of
// worlds/wire/base.go (the two worlds are separate test binaries).
package client

import (
	"context"
	"crypto/aes"
	"encoding/binary"
	"errors"
	"fmt"
	"io"
	"net"
	"os"
	"time"

	"github.com/gotd/ige"
	tdlog "github.com/gotd/log"

	"github.com/gotd/td/bin"
	"github.com/gotd/td/clock"
	"github.com/gotd/td/crypto"
	"github.com/gotd/td/mt"
	"github.com/gotd/td/mtproto"
	"github.com/gotd/td/proto"
	"github.com/gotd/td/transport"

	"verif/simrand"
	"verif/simrt"
)

// ---- clock seam -------------------------------------------------------------------

// simClock is clock.Clock = bubble time + a harness-controlled offset (skew,
// jumps). Timers and tickers are real bubble timers.
type simClock struct{ off time.Duration }

func (c *simClock) Now() time.Time                      { return time.Now().Add(c.off) }
func (c *simClock) Timer(d time.Duration) clock.Timer   { return clock.System.Timer(d) }
func (c *simClock) Ticker(d time.Duration) clock.Ticker { return clock.System.Ticker(d) }

// ---- frame-level transport -----------------------------------------------------------

type frame struct {
	data []byte
	tag  string // harness bookkeeping: what this frame is
	// ackOf / resOf: the client message ids this frame acknowledges / answers
	ackOf []int64
	resOf int64
}

// link is the client's transport.Conn; the harness sees every frame.
type link struct {
	toClient chan frame
	toServer chan frame
	closed   chan struct{}
	isClosed bool
	sendErr  error // if set, client sends fail
	onRecv   func(f frame) // the client's reader took this frame off the link
	stallOut bool  // client sends block until the context ends (half-open link)
}

func newLink() *link {
	return &link{toClient: make(chan frame, 4096), toServer: make(chan frame, 4096), closed: make(chan struct{})}
}

type timeoutError struct{}

func (timeoutError) Error() string   { return "i/o timeout" }
func (timeoutError) Timeout() bool   { return true }
func (timeoutError) Temporary() bool { return true }

func (l *link) Send(ctx context.Context, b *bin.Buffer) error {
	if l.isClosed {
		return net.ErrClosed
	}
	if l.sendErr != nil {
		return l.sendErr
	}
	if l.stallOut {
		i, _, _ := simrt.Select(0, false, simrt.SelRecv(ctx.Done()), simrt.SelRecv(l.closed))
		if i == 0 {
			return &net.OpError{Op: "write", Net: "sim", Err: os.ErrDeadlineExceeded}
		}
		return net.ErrClosed
	}
	f := frame{data: append([]byte(nil), b.Buf...)}
	simrt.Send(0, l.toServer, f)
	return nil
}

func (l *link) Recv(ctx context.Context, b *bin.Buffer) error {
	i, rv, ok := simrt.Select(0, false, simrt.SelRecv(l.toClient), simrt.SelRecv(ctx.Done()), simrt.SelRecv(l.closed))
	switch i {
	case 0:
		if !ok {
			return io.EOF
		}
		f := simrt.RecvVal(l.toClient, rv)
		if l.onRecv != nil {
			l.onRecv(f)
		}
		b.ResetTo(append([]byte(nil), f.data...))
		return nil
	case 1:
		if errors.Is(ctx.Err(), context.DeadlineExceeded) {
			return &net.OpError{Op: "read", Net: "sim", Err: os.ErrDeadlineExceeded}
		}
		return ctx.Err()
	default:
		return net.ErrClosed
	}
}

func (l *link) Close() error {
	if !l.isClosed {
		l.isClosed = true
		close(l.closed)
	}
	return nil
}

var _ transport.Conn = (*link)(nil)

// ---- server endpoint ------------------------------------------------------------------

// clientMsg is one decrypted client frame.
type clientMsg struct {
	seq     uint64 // event seq
	t       time.Duration
	salt    int64
	session int64
	msgID   int64
	seqNo   int32
	body    []byte
	typeID  uint32
	padding int
	encLen  int
	raw     []byte
}

type server struct {
	tape    *simrt.Tape
	key     crypto.AuthKey
	cipher  crypto.Cipher
	link    *link
	clk     *simClock
	session int64 // learnt from the first client message
	msgs    []*clientMsg
	lastID  int64
	seqNo   int32
	onMsg   func(m *clientMsg)
	// fault knobs for server -> client delivery
	dropDen int
	dupDen  int
	delays  []time.Duration
}

func newKey(tape *simrt.Tape) crypto.AuthKey {
	var k crypto.Key
	tape.Fill(simrt.Wl, k[:])
	return k.WithID()
}

// serve decrypts everything the client writes and hands it to onMsg.
func (s *server) serve() {
	for {
		i, rv, ok := simrt.Select(0, false, simrt.SelRecv(s.link.toServer), simrt.SelRecv(s.link.closed))
		if i != 0 || !ok {
			return
		}
		f := simrt.RecvVal(s.link.toServer, rv)
		m, err := s.decrypt(f.data)
		if err != nil {
			simrt.Violate("C04", "C04.client-frame-undecryptable", "client-frame-undecryptable", "a frame written by the client does not decrypt on the server side: %v", err)
			continue
		}
		m.seq, m.t = simrt.Ev("client-msg", "id=%d seq=%d type=%#x len=%d salt=%d", m.msgID, m.seqNo, m.typeID, len(m.body), m.salt), simrt.Now()
		if s.session == 0 {
			s.session = m.session
		}
		s.msgs = append(s.msgs, m)
		if s.onMsg != nil {
			s.onMsg(m)
		}
	}
}

func (s *server) decrypt(data []byte) (*clientMsg, error) {
	d, err := s.cipher.DecryptFromBuffer(s.key, &bin.Buffer{Buf: append([]byte(nil), data...)})
	if err != nil {
		return nil, err
	}
	m := &clientMsg{salt: d.Salt, session: d.SessionID, msgID: d.MessageID, seqNo: d.SeqNo, body: append([]byte(nil), d.Data()...),
		padding: len(d.MessageDataWithPadding) - int(d.MessageDataLen), encLen: len(data) - 24, raw: data}
	if len(m.body) >= 4 {
		m.typeID = binary.LittleEndian.Uint32(m.body)
	}
	return m, nil
}

// newID returns a fresh server message id (type: 1 = response, 3 = notification).
func (s *server) newID(typ int64) int64 {
	now := s.clk.Now()
	id := (now.Unix() << 32) | int64(now.Nanosecond()&^3) | typ
	if id <= s.lastID {
		id = ((s.lastID>>2)+1)<<2 | typ
	}
	s.lastID = id
	return id
}

type sendOpt struct {
	id       int64 // 0: fresh
	idType   int64 // 1 or 3 (default 1)
	session  int64 // 0: the client's
	content  bool  // seq_no odd: the client must acknowledge
	padding  int   // <0: default random 12..1024 via crypto.Cipher; >=0: exactly this many bytes (harness encryption)
	rawLen   int   // >0: announce this data length instead of len(body) (must be <= len(body)+padding)
	key      *crypto.AuthKey
	tag      string
	noFaults bool
	ackOf    []int64
	resOf    int64
}

// encrypt builds an encrypted server message. With opt.padding >= 0 the harness
// does the MTProto 2.0 encryption itself (crypto.MessageKey/Keys + IGE) so that
// it can produce paddings the library's own encoder never emits.
func (s *server) encrypt(body []byte, o sendOpt) (frame, int64) {
	id := o.id
	if id == 0 {
		t := o.idType
		if t == 0 {
			t = 1
		}
		id = s.newID(t)
	}
	sess := o.session
	if sess == 0 {
		sess = s.session
	}
	seq := s.seqNo * 2
	if o.content {
		seq++
		s.seqNo++
	}
	key := s.key
	if o.key != nil {
		key = *o.key
	}
	if o.padding < 0 && o.rawLen == 0 {
		var b bin.Buffer
		err := s.cipher.Encrypt(key, crypto.EncryptedMessageData{Salt: 1, SessionID: sess, MessageID: id, SeqNo: seq, MessageDataLen: int32(len(body)), MessageDataWithPadding: body}, &b)
		if err != nil {
			panic(err)
		}
		return frame{data: append([]byte(nil), b.Buf...), tag: o.tag}, id
	}
	pad := o.padding
	if pad < 0 {
		pad = 16
	}
	n := len(body)
	if o.rawLen > 0 {
		n = o.rawLen
	}
	var p bin.Buffer
	p.PutLong(1)
	p.PutLong(sess)
	p.PutLong(id)
	p.PutInt32(seq)
	p.PutInt32(int32(n))
	p.Put(body)
	padBytes := make([]byte, pad)
	s.tape.Fill(simrt.Rand, padBytes)
	p.Put(padBytes)
	if len(p.Buf)%16 != 0 {
		panic(fmt.Sprintf("harness: plaintext of %d bytes is not block aligned (body %d padding %d)", len(p.Buf), len(body), pad))
	}
	msgKey := crypto.MessageKey(key.Value, p.Buf, crypto.Server)
	k, iv := crypto.Keys(key.Value, msgKey, crypto.Server)
	enc := make([]byte, len(p.Buf))
	blk, err := aes.NewCipher(k[:])
	if err != nil {
		panic(err)
	}
	ige.EncryptBlocks(blk, iv[:], enc, p.Buf)
	var out bin.Buffer
	out.Put(key.ID[:])
	out.Put(msgKey[:])
	out.Put(enc)
	return frame{data: out.Buf, tag: o.tag}, id
}

// deliver hands a frame to the client through the faulty network.
func (s *server) deliver(f frame, noFaults bool) {
	if !noFaults && s.dropDen > 0 && s.tape.Coin(simrt.Net, 1, s.dropDen) {
		simrt.FaultFired("frame-drop", "%s", f.tag)
		return
	}
	n := 1
	if !noFaults && s.dupDen > 0 && s.tape.Coin(simrt.Net, 1, s.dupDen) {
		n = 2
		simrt.FaultFired("frame-dup", "%s", f.tag)
	}
	for i := 0; i < n; i++ {
		d := time.Duration(0)
		if !noFaults && len(s.delays) > 0 {
			d = s.delays[s.tape.Choose(simrt.Net, len(s.delays))]
		}
		if d == 0 && i == 0 {
			simrt.Ev("deliver", "%s", f.tag)
			simrt.Send(0, s.link.toClient, f)
			continue
		}
		simrt.Go("deliver", func() {
			simrt.Sleep(0, d)
			if s.link.isClosed {
				return
			}
			simrt.Ev("deliver", "%s (delayed %v)", f.tag, d)
			simrt.Send(0, s.link.toClient, f)
		})
	}
}

// send encrypts and delivers one server message; returns its message id.
func (s *server) send(body []byte, o sendOpt) int64 {
	if o.padding == 0 && o.rawLen == 0 {
		o.padding = -1
	}
	f, id := s.encrypt(body, o)
	f.ackOf, f.resOf = o.ackOf, o.resOf
	s.deliver(f, o.noFaults)
	return id
}

func enc(e bin.Encoder) []byte {
	var b bin.Buffer
	if err := e.Encode(&b); err != nil {
		panic(err)
	}
	return b.Buf
}

func (s *server) result(reqID int64, body []byte) []byte {
	return enc(&proto.Result{RequestMessageID: reqID, Result: body})
}

func (s *server) rpcError(reqID int64, code int, msg string) []byte {
	return s.result(reqID, enc(&mt.RPCError{ErrorCode: code, ErrorMessage: msg}))
}

// ---- client construction -----------------------------------------------------------------

type handlerLog struct {
	msgs     [][]byte
	sessions []mtproto.Session
	onMsg    func(b []byte)
}

func (h *handlerLog) OnMessage(b *bin.Buffer) error {
	p := append([]byte(nil), b.Buf...)
	h.msgs = append(h.msgs, p)
	simrt.Ev("handler-message", "len=%d first=%x", len(p), p[:min(8, len(p))])
	if h.onMsg != nil {
		h.onMsg(p)
	}
	return nil
}

func (h *handlerLog) OnSession(s mtproto.Session) error {
	h.sessions = append(h.sessions, s)
	simrt.Ev("handler-session", "salt=%d", s.Salt)
	return nil
}

type fixture struct {
	tape *simrt.Tape
	key  crypto.AuthKey
	clk  *simClock
	srv  *server
	link *link
	h    *handlerLog
	conn *mtproto.Conn
	opts mtproto.Options
	// ended: conn.Run returned; userDone: the scenario function returned
	ended    bool
	userDone bool
}

// newFixture wires a real mtproto.Conn (with a pre-shared auth key) to the
// scripted server.
func newFixture(tape *simrt.Tape, tweak func(o *mtproto.Options)) *fixture {
	fx := &fixture{tape: tape, key: newKey(tape), clk: &simClock{}, link: newLink(), h: &handlerLog{}}
	fx.srv = &server{tape: tape, key: fx.key, cipher: crypto.NewServerCipher(simrand.New(tape)), link: fx.link, clk: fx.clk}
	o := mtproto.Options{
		DC: 2, Key: fx.key, Salt: 1, Handler: fx.h, Clock: fx.clk, Random: simrand.New(tape),
		AckBatchSize: 3, AckInterval: 2 * time.Second, RetryInterval: 3 * time.Second, MaxRetries: 3,
		PingInterval: 10 * time.Minute, PingTimeout: 5 * time.Second, SaltFetchInterval: time.Hour,
		DialTimeout: 30 * time.Second, ExchangeTimeout: 10 * time.Second,
	}
	if os.Getenv("VERIF_CLIENTLOG") != "" {
		o.Logger = stderrLog{}
	}
	if tweak != nil {
		tweak(&o)
	}
	fx.opts = o
	fx.conn = mtproto.New(func(ctx context.Context) (transport.Conn, error) { return fx.link, nil }, o)
	return fx
}

// rpc bodies of the harness
type tagReq struct{ tag int64 }

func (r tagReq) Encode(b *bin.Buffer) error { b.PutID(0x5eed0001); b.PutLong(r.tag); return nil }

type tagResp struct {
	got  []int64
	note func(v int64)
}

func (r *tagResp) Decode(b *bin.Buffer) error {
	if err := b.ConsumeID(0x5eed0002); err != nil {
		return err
	}
	v, err := b.Long()
	if err != nil {
		return err
	}
	r.got = append(r.got, v)
	if r.note != nil {
		r.note(v)
	}
	return nil
}

func respBody(v int64) []byte {
	var b bin.Buffer
	b.PutID(0x5eed0002)
	b.PutLong(v)
	return b.Buf
}

func reqTag(body []byte) (int64, bool) {
	if len(body) == 12 && binary.LittleEndian.Uint32(body) == 0x5eed0001 {
		return int64(binary.LittleEndian.Uint64(body[4:])), true
	}
	return 0, false
}

// stderrLog prints the client's own log (debugging aid, VERIF_CLIENTLOG=<file>;
// it reads no clock and draws nothing from the tape).
type stderrLog struct{}

func (stderrLog) Enabled(context.Context, tdlog.Level) bool { return true }
func (stderrLog) Log(_ context.Context, l tdlog.Level, msg string, attrs ...tdlog.Attr) {
	line := fmt.Sprintf("client-log %v %s", l, msg)
	for _, a := range attrs {
		line += fmt.Sprintf(" %s=%s", a.Key, a.Value.String())
	}
	if f, err := os.OpenFile(os.Getenv("VERIF_CLIENTLOG"), os.O_APPEND|os.O_CREATE|os.O_WRONLY, 0o644); err == nil {
		fmt.Fprintln(f, line)
		f.Close()
	}
}
