package client

import (
	"testing"

	"verif/dst"
)

func TestWorker(t *testing.T) { dst.WorkerMain(t, World) }
