// Package client is world W6: the real telegram.Client (Run, reconnect loop,
// invokeConn retry, session restore/save) over manager.Conn, mtproto.Conn and
// rpc.Engine, against scripted server endpoints reached through a simulated
// dialer. Decides C29 (and C30, see session.go).
package client

import (
	"context"
	"encoding/binary"
	"errors"
	"fmt"
	"sort"
	"strings"
	"testing"
	"time"

	"github.com/cenkalti/backoff/v4"

	"github.com/gotd/td/bin"
	"github.com/gotd/td/crypto"
	"github.com/gotd/td/mt"
	"github.com/gotd/td/session"
	"github.com/gotd/td/telegram"
	"github.com/gotd/td/telegram/dcs"
	"github.com/gotd/td/tg"
	"github.com/gotd/td/transport"

	"verif/dst"
	"verif/simrand"
	"verif/simrt"
)

var World = dst.World{
	Name:  "client",
	Props: []string{"C29", "C30"},
	Run:   run,
	Real: []string{"telegram.Client (NewClient, Run, reconnectUntilClosed, runUntilRestart, invokeDirect/invokeConn, restoreConnection, onSession/saveSession, migration)", "telegram/internal/manager.Conn", "pool.SyncSession", "mtproto.Conn", "rpc.Engine",
		"session.Loader (JSON envelope)", "cenkalti/backoff retry loop (instrumented copy)"},
	Stub: []string{"dcs.Resolver handing out frame-level links to scripted server endpoints (one per dial)", "scripted server: answers initConnection/help.getConfig, pings, tagged requests by a tape plan; kills links", "recording session.Storage", "constant reconnection backoff", "C30: fake pool.Conn constructor (overlay export) firing session notifications"},
}

func run(t *testing.T, tape *simrt.Tape, env dst.Env) *simrt.Outcome {
	scen := env.Prop
	if scen == "" {
		scen = simrt.Pick(tape, simrt.Cfg, "C29", "C30")
	}
	f := map[string]func(*testing.T, *simrt.Tape, dst.Env) *simrt.Outcome{"C29": runC29, "C30": runC30}[scen]
	out := f(t, tape, env)
	if out.HarnessErr == "" && out.Panic != "" {
		if out.PanicInRepo() {
			out.AddViolation(scen, scen+".panic", "panic", "library code panicked in task %s: %s", out.PanicTask, out.PanicLine())
		} else {
			out.HarnessErr = "panic in world client (" + scen + "): " + out.Panic
		}
	}
	return out
}

// memStorage is session.Storage with full history.
type memStorage struct {
	cur     []byte
	history [][]byte
	onStore func(b []byte)
}

func (m *memStorage) LoadSession(ctx context.Context) ([]byte, error) {
	if m.cur == nil {
		return nil, session.ErrNotFound
	}
	return append([]byte(nil), m.cur...), nil
}

func (m *memStorage) StoreSession(ctx context.Context, data []byte) error {
	m.cur = append([]byte(nil), data...)
	m.history = append(m.history, m.cur)
	if m.onStore != nil {
		m.onStore(m.cur)
	}
	return nil
}

// ---- C29 ------------------------------------------------------------------------------------

// sconn is one dialled connection: a link and the scripted server behind it.
type sconn struct {
	n       int
	link    *link
	srv     *server
	killedT time.Duration // -1: alive
	inited  bool
}

// call is one caller's request (unique tag).
type call struct {
	tag      int64
	value    int64 // what the server answers with
	sends    []sendRec
	ackRecvT time.Duration // when the client's reader took an ack for it (-1: never)
	ackConn  int
	resRecvT time.Duration // when the client's reader took its result (-1: never)
	resConn  int
	ackSent  bool
	retT     time.Duration // caller returned (-1: not yet)
	err      error
	got      []int64
	startT   time.Duration
	afterEnd bool // issued after the client was closed
}

type sendRec struct {
	conn  int
	msgID int64
	t     time.Duration
}

type resolver struct {
	dial func(ctx context.Context, dc int) (transport.Conn, error)
}

func (r resolver) Primary(ctx context.Context, dc int, _ dcs.List) (transport.Conn, error) {
	return r.dial(ctx, dc)
}
func (r resolver) MediaOnly(ctx context.Context, dc int, _ dcs.List) (transport.Conn, error) {
	return r.dial(ctx, dc)
}
func (r resolver) CDN(ctx context.Context, dc int, _ dcs.List) (transport.Conn, error) {
	return r.dial(ctx, dc)
}

// innerTag finds the tagged request inside invokeWithLayer / invokeWithoutUpdates wrappers.
func innerTag(body []byte) (int64, bool) {
	if len(body) >= 12 {
		return reqTag(body[len(body)-12:])
	}
	return 0, false
}

func isInit(body []byte) bool {
	// invokeWithoutUpdates(invokeWithLayer(initConnection(... invokeWithoutUpdates(help.getConfig))))
	return len(body) >= 8 && binary.LittleEndian.Uint32(body[len(body)-4:]) == tg.HelpGetConfigRequestTypeID
}

func runC29(t *testing.T, tape *simrt.Tape, env dst.Env) *simrt.Outcome {
	return simrt.Run(t, tape, simrt.Options{Policy: -1}, func(s *simrt.Sim) {
		viol := func(rule, sig, format string, args ...any) { simrt.Violate("C29", rule, sig, format, args...) }
		clk := &simClock{}
		key := newKey(tape)
		var conns []*sconn
		calls := map[int64]*call{}
		calm := false                           // faults have stopped
		kills := 1 + tape.Choose(simrt.Cfg, 3)  // kill budget of the run
		dialFails := tape.Choose(simrt.Cfg, 3)  // failing dials after each kill
		pendingDialFails := 0
		shutdown := tape.Coin(simrt.Cfg, 1, 3) // the run ends with the client being closed while requests are pending
		kill := func(c *sconn, why string) {
			if c.killedT >= 0 {
				return
			}
			c.killedT = simrt.Now()
			simrt.FaultFired("conn-kill", "conn %d: %s", c.n, why)
			c.link.Close()
			pendingDialFails = dialFails
		}
		cfgBody := func() []byte {
			return enc(&tg.Config{ThisDC: 2, DCOptions: []tg.DCOption{{ID: 2, IPAddress: "10.0.0.2", Port: 443}}, Date: int(clk.Now().Unix()), Expires: int(clk.Now().Unix()) + 3600})
		}
		serve := func(c *sconn) {
			first := true
			c.srv.onMsg = func(m *clientMsg) {
				if c.killedT >= 0 {
					return
				}
				content := m.seqNo&1 == 1
				if first && content {
					first = false
					c.srv.send(enc(&mt.NewSessionCreated{FirstMsgID: m.msgID, UniqueID: int64(c.n), ServerSalt: 1}), sendOpt{content: true, tag: "new_session_created", noFaults: true})
				}
				switch {
				case m.typeID == mt.PingDelayDisconnectRequestTypeID:
					var p mt.PingDelayDisconnectRequest
					if p.Decode(&bin.Buffer{Buf: m.body}) == nil {
						c.srv.send(enc(&mt.Pong{MsgID: m.msgID, PingID: p.PingID}), sendOpt{tag: "pong", noFaults: true})
					}
				case m.typeID == mt.PingRequestTypeID:
					var p mt.PingRequest
					if p.Decode(&bin.Buffer{Buf: m.body}) == nil {
						c.srv.send(enc(&mt.Pong{MsgID: m.msgID, PingID: p.PingID}), sendOpt{tag: "pong", noFaults: true})
					}
				case isInit(m.body):
					if !calm && kills > 0 && tape.Coin(simrt.Fault, 1, 8) {
						kills--
						kill(c, "during initConnection")
						return
					}
					c.inited = true
					c.srv.send(enc(&mt.MsgsAck{MsgIDs: []int64{m.msgID}}), sendOpt{tag: "ack init", noFaults: true})
					c.srv.send(c.srv.result(m.msgID, cfgBody()), sendOpt{content: true, tag: "config", noFaults: true})
				default:
					tag, ok := innerTag(m.body)
					if !ok {
						return
					}
					cl := calls[tag]
					if cl == nil {
						viol("C29.unknown-request", "unknown-request", "the server received request %d, which no caller issued", tag)
						return
					}
					retransmit := false
					for _, sr := range cl.sends {
						if sr.conn == c.n && sr.msgID == m.msgID {
							retransmit = true
						}
					}
					cl.sends = append(cl.sends, sendRec{c.n, m.msgID, simrt.Now()})
					simrt.Ev("server-request", "tag=%d conn=%d msg=%d retransmit=%v", tag, c.n, m.msgID, retransmit)
					if retransmit {
						return // the plan of the first transmission stands
					}
					ack := func() {
						cl.ackSent = true
						ids := []int64{m.msgID}
						if tape.Coin(simrt.Net, 1, 2) {
							// batched with an id nobody waits for (answered long ago / unknown)
							// (an hour older than anything in this run: never a pending id)
							ids = []int64{m.msgID - 3600<<32 - 4*int64(tape.Choose(simrt.Net, 1000)), m.msgID}
						}
						c.srv.send(enc(&mt.MsgsAck{MsgIDs: ids}), sendOpt{tag: fmt.Sprintf("ack tag %d", tag), noFaults: true, ackOf: []int64{tag}})
					}
					result := func() {
						c.srv.send(c.srv.result(m.msgID, respBody(cl.value)), sendOpt{content: true, tag: fmt.Sprintf("result tag %d", tag), noFaults: true, resOf: tag})
					}
					plan := 0
					if !calm && kills > 0 {
						plan = tape.Choose(simrt.Fault, 10)
					}
					d1 := time.Duration(tape.Choose(simrt.Net, 4)) * 100 * time.Millisecond
					d2 := time.Duration(1+tape.Choose(simrt.Net, 4)) * 100 * time.Millisecond
					later := func(d time.Duration, f func()) {
						simrt.Go("server-later", func() {
							simrt.Sleep(0, d)
							if c.killedT < 0 {
								f()
							}
						})
					}
					switch plan {
					case 0, 1:
						later(d1, func() { ack(); later(d2, result) })
					case 2:
						later(d1, result)
					case 3: // acknowledged, then the link dies
						kills--
						later(d1, func() { ack(); later(d2, func() { kill(c, fmt.Sprintf("after the ack of tag %d", tag)) }) })
					case 4: // dies before any acknowledgement
						kills--
						later(d1, func() { kill(c, fmt.Sprintf("on receipt of tag %d", tag)) })
					case 5: // silence, then the link dies
						kills--
						later(d1+5*time.Second, func() { kill(c, fmt.Sprintf("after ignoring tag %d", tag)) })
					case 6: // ack and death at the same instant
						kills--
						later(d1, func() { ack(); kill(c, fmt.Sprintf("together with the ack of tag %d", tag)) })
					case 9: // never acknowledged: the result and the death of the link at the same instant
						kills--
						later(d1, func() { result(); kill(c, fmt.Sprintf("together with the unacknowledged result of tag %d", tag)) })
					case 7: // ack, then result and death at the same instant
						kills--
						later(d1, func() { ack(); later(d2, func() { result(); kill(c, fmt.Sprintf("together with the result of tag %d", tag)) }) })
					default: // result, later death
						kills--
						later(d1, func() { ack(); result(); later(d2, func() { kill(c, fmt.Sprintf("after the result of tag %d", tag)) }) })
					}
				}
			}
			c.srv.serve()
		}
		dial := func(ctx context.Context, dc int) (transport.Conn, error) {
			if d := time.Duration(tape.Choose(simrt.Net, 3)) * 100 * time.Millisecond; d > 0 {
				simrt.Sleep(0, d)
			}
			if pendingDialFails > 0 && !calm {
				pendingDialFails--
				simrt.FaultFired("dial-error", "")
				return nil, errors.New("sim: connection refused")
			}
			c := &sconn{n: len(conns) + 1, link: newLink(), killedT: -1}
			c.srv = &server{tape: tape, key: key, cipher: crypto.NewServerCipher(simrand.New(tape)), link: c.link, clk: clk}
			c.link.onRecv = func(f frame) {
				for _, tag := range f.ackOf {
					if cl := calls[tag]; cl != nil && cl.ackRecvT < 0 {
						cl.ackRecvT, cl.ackConn = simrt.Now(), c.n
					}
				}
				if cl := calls[f.resOf]; f.resOf != 0 && cl != nil && cl.resRecvT < 0 {
					cl.resRecvT, cl.resConn = simrt.Now(), c.n
				}
			}
			conns = append(conns, c)
			simrt.Ev("dial", "conn %d", c.n)
			simrt.Go(fmt.Sprintf("server%d", c.n), func() { serve(c) })
			return c.link, nil
		}
		st := &memStorage{}
		ld := session.Loader{Storage: st}
		if err := ld.Save(context.Background(), &session.Data{DC: 2, AuthKey: key.Value[:], AuthKeyID: key.ID[:], Salt: 1}); err != nil {
			panic(err)
		}
		opts := telegram.Options{
			DC: 2, Resolver: resolver{dial}, NoUpdates: true, SessionStorage: st,
			Random: simrand.New(tape), Clock: clk,
			ReconnectionBackoff: func() backoff.BackOff { return backoff.NewConstantBackOff(time.Duration(1+tape.Choose(simrt.Cfg, 3)) * 300 * time.Millisecond) },
			AckBatchSize: 1 + tape.Choose(simrt.Cfg, 3), AckInterval: time.Second, RetryInterval: time.Duration(2+tape.Choose(simrt.Cfg, 3)) * time.Second, MaxRetries: 5,
			DialTimeout: 10 * time.Second, ExchangeTimeout: 10 * time.Second,
		}
		cli := telegram.NewClient(1, "hash", opts)
		ctx, cancel := context.WithCancel(context.Background())
		defer cancel()
		runDone := make(chan error, 1)
		nCalls := 1 + tape.Choose(simrt.Wl, 3)
		fin := make(chan *call, 16)
		invoke := func(cctx context.Context, cl *call) {
			var out tagResp
			cl.startT = simrt.Now()
			err := cli.Invoke(cctx, tagReq{cl.tag}, &out)
			cl.retT, cl.err, cl.got = simrt.Now(), err, out.got
			simrt.Ev("invoke-return", "tag=%d err=%v got=%v", cl.tag, err, out.got)
			simrt.Send(0, fin, cl)
		}
		var closedT time.Duration = -1
		simrt.Go("client.Run", func() {
			err := cli.Run(ctx, func(ctx context.Context) error {
				for i := 0; i < nCalls; i++ {
					cl := &call{tag: int64(100 + i), value: int64(9000 + i), ackRecvT: -1, resRecvT: -1, retT: -1}
					calls[cl.tag] = cl
					simrt.Go(fmt.Sprintf("caller%d", cl.tag), func() {
						simrt.Sleep(0, time.Duration(tape.Choose(simrt.Wl, 4))*150*time.Millisecond)
						// the caller's own context: none, or far later than anything here
						cctx, cc := context.Background(), context.CancelFunc(func() {})
						if tape.Coin(simrt.Wl, 1, 2) {
							cctx, cc = context.WithTimeout(context.Background(), 10*time.Minute)
						}
						defer cc()
						invoke(cctx, cl)
					})
				}
				// the callback keeps the client up until the scenario is over
				simrt.Recv(0, ctx.Done())
				return nil
			})
			simrt.Ev("client-run-return", "err=%v", err)
			simrt.Send(0, runDone, err)
		})
		// phase 1: faults; phase 2: calm or shutdown
		simrt.Sleep(0, time.Duration(5+tape.Choose(simrt.Wl, 10))*time.Second)
		calm = true
		simrt.Ev("calm", "faults stop (kills left %d)", kills)
		returned := 0
		waitAll := func(bound time.Duration) {
			deadline := simrt.Now() + bound
			for returned < nCalls && simrt.Now() < deadline {
				if i, _, _ := simrt.Select(0, false, simrt.SelRecv(fin), simrt.SelRecv(time.After(time.Second))); i == 0 {
					returned++
				}
			}
		}
		if shutdown {
			// some requests may still be pending: close the client
			simrt.Sleep(0, time.Duration(tape.Choose(simrt.Wl, 3))*200*time.Millisecond)
			// make the situation interesting: the primary link is gone and no dial succeeds any more
			if tape.Coin(simrt.Fault, 1, 2) {
				calm = false
				dialFails, pendingDialFails, kills = 1<<30, 1<<30, 0
				for _, c := range conns {
					kill(c, "before the client is closed")
				}
				simrt.Sleep(0, time.Duration(tape.Choose(simrt.Wl, 3))*300*time.Millisecond)
			}
			closedT = simrt.Now()
			simrt.Ev("client-close", "")
			cancel()
			waitAll(30 * time.Second)
			// a new invocation on the closed client returns as well
			late := &call{tag: 999, value: 1, ackRecvT: -1, resRecvT: -1, retT: -1, afterEnd: true}
			calls[late.tag] = late
			nCalls++
			simrt.Go("caller-after-close", func() { invoke(context.Background(), late) })
			waitAll(30 * time.Second)
		} else {
			waitAll(3 * time.Minute)
			cancel()
		}
		simrt.Select(0, false, simrt.SelRecv(runDone), simrt.SelRecv(time.After(time.Minute)))
		for _, c := range conns {
			c.link.Close()
		}

		// ---- oracles ----
		if len(calls) == 0 {
			panic("harness: the client never became ready, no request was issued")
		}
		var tags []int64
		for tag := range calls {
			tags = append(tags, tag)
		}
		sort.Slice(tags, func(i, j int) bool { return tags[i] < tags[j] })
		connOf := func(n int) *sconn { return conns[n-1] }
		for _, tag := range tags {
			cl := calls[tag]
			// which connections carried it, in order
			var carried []int
			for _, sr := range cl.sends {
				if len(carried) == 0 || carried[len(carried)-1] != sr.conn {
					carried = append(carried, sr.conn)
				}
			}
			if cl.retT >= 0 && cl.err == nil {
				if len(cl.got) != 1 || cl.got[0] != cl.value {
					viol("C29.wrong-result", "wrong-result", "request %d returned %v, the server answered %d", tag, cl.got, cl.value)
				}
				if cl.resRecvT < 0 {
					viol("C29.wrong-result", "result-from-nowhere", "request %d returned successfully although its result never reached the client", tag)
				}
			}
			// acknowledged (clearly before the link died): never on a later connection
			if cl.ackRecvT >= 0 {
				ac := connOf(cl.ackConn)
				clearly := ac.killedT < 0 || cl.ackRecvT+time.Millisecond <= ac.killedT
				for _, sr := range cl.sends {
					if sr.conn > cl.ackConn && clearly {
						viol("C29.resent-after-ack", "resent-after-ack", "request %d was acknowledged on connection %d (ack read by the client at %v, link died at %v) and sent again on connection %d at %v", tag, cl.ackConn, cl.ackRecvT, ac.killedT, sr.conn, sr.t)
						break
					}
				}
				if clearly && ac.killedT >= 0 && cl.resRecvT < 0 && cl.retT >= 0 && cl.err == nil {
					viol("C29.acked-no-error", "acked-no-error", "request %d was acknowledged, its connection died without a result, and the call still returned success", tag)
				}
			}
			// (a result read in the very moment the link dies may be lost with it:
			// like an ack in that position it counts as either outcome)
			if rc := cl.resConn; cl.resRecvT >= 0 && (connOf(rc).killedT < 0 || cl.resRecvT+time.Millisecond <= connOf(rc).killedT) {
				for _, sr := range cl.sends {
					if sr.t > cl.resRecvT+time.Millisecond {
						viol("C29.resent-after-result", "resent-after-result", "request %d was transmitted again (connection %d at %v) after its result had reached the client at %v", tag, sr.conn, sr.t, cl.resRecvT)
						break
					}
				}
			}
			if shutdown {
				if cl.retT < 0 {
					viol("C29.hang-after-close", hangSig(cl), "request %d had not returned 30 s after the client was closed at %v (issued at %v, after close: %v)", tag, closedT, cl.startT, cl.afterEnd)
				}
				continue
			}
			// no shutdown: faults stopped, every link that died was replaced
			if cl.retT < 0 {
				viol("C29.stuck", "stuck", "request %d never returned although faults stopped 3 minutes ago (carried on connections %v, ack sent %v)", tag, carried, cl.ackSent)
				continue
			}
			if cl.err != nil && !cl.ackSent {
				// never acknowledged by the server on any connection: must have been
				// re-sent transparently until it succeeded
				viol("C29.unacked-failed", "unacked-failed "+errClass(cl.err), "request %d was never acknowledged by the server, its connection died, and the call failed with %v instead of being sent again on the replacement connection (carried on %v)", tag, cl.err, carried)
			}
		}
	})
}

// errClass names the way an invocation failed (part of violation signatures).
func errClass(err error) string {
	switch {
	case err == nil:
		return "nil"
	case errors.Is(err, context.Canceled), errors.Is(err, context.DeadlineExceeded):
		return "context"
	case telegram.VerifRetryableOnNewConn(err):
		return "retryable-error-returned"
	case strings.Contains(err.Error(), "retryUntilAck: send:"):
		return "send-error"
	}
	return "other-error"
}

func hangSig(cl *call) string {
	if cl.afterEnd {
		return "hang-after-close new"
	}
	return "hang-after-close pending"
}
