// Package dial is world W10: the real dcs.Plain resolver racing dials to several
// addresses of one DC over a scripted simulated dialer. Decides C42.
package dial

import (
	"context"
	"errors"
	"fmt"
	"net"
	"testing"
	"time"

	"github.com/gotd/td/telegram/dcs"
	"github.com/gotd/td/tg"
	"github.com/gotd/td/transport"

	"verif/dst"
	"verif/simnet"
	"verif/simrand"
	"verif/simrt"
)

var World = dst.World{
	Name:  "dial",
	Props: []string{"C42"},
	Run:   run,
	Real:  []string{"dcs.Plain (Primary/MediaOnly/CDN → connect fan-out, dialTransport)", "transport.Protocol.Handshake, codec headers, obfuscated2 client handshake"},
	Stub:  []string{"DialFunc (scripted: success/failure/hang/late success after cancellation, latencies)", "simulated net.Conn", "caller with cancel/deadline"},
}

type dialErr struct{ addr string }

func (e *dialErr) Error() string { return "dial " + e.addr + ": scripted failure" }

type script struct {
	kind  int // 0 ok, 1 fail, 2 hang-until-cancel then fail, 3 hang-until-cancel then succeed late (dialer ignores ctx), 4 ok but connection already reset (handshake fails)
	after time.Duration
	late  time.Duration
	err   *dialErr
}

func run(t *testing.T, tape *simrt.Tape, env dst.Env) *simrt.Outcome {
	var (
		conns    []*simnet.Conn
		retConn  transport.Conn
		retErr   error
		returned bool
		open     int
		scripts  = map[string]*script{}
		order    []string
		cancelT  time.Duration = -1
		started  int
		finished int
		which    int
	)
	out := simrt.Run(t, tape, simrt.Options{Policy: -1}, func(s *simrt.Sim) {
		n := tape.Range(simrt.Cfg, 1, 5)
		obfs := tape.Coin(simrt.Cfg, 1, 4)
		which = tape.Choose(simrt.Cfg, 3)
		var opts []tg.DCOption
		anyHang := false
		for i := 0; i < n; i++ {
			ip := fmt.Sprintf("10.0.0.%d", i+1)
			o := tg.DCOption{ID: 2, IPAddress: ip, Port: 443}
			switch which {
			case 1:
				o.MediaOnly = true
			case 2:
				o.CDN = true
			}
			opts = append(opts, o)
			sc := &script{kind: tape.Choose(simrt.Net, 5), after: time.Duration(tape.Choose(simrt.Net, 4)) * 50 * time.Millisecond,
				late: time.Duration(tape.Choose(simrt.Net, 3)) * 50 * time.Millisecond, err: &dialErr{ip}}
			if sc.kind == 2 || sc.kind == 3 {
				anyHang = true
			}
			addr := net.JoinHostPort(ip, "443")
			scripts[addr] = sc
			order = append(order, addr)
		}
		dial := func(ctx context.Context, network, addr string) (net.Conn, error) {
			sc := scripts[addr]
			started++
			defer func() { finished++ }()
			simrt.Ev("dial", "%s kind=%d after=%v", addr, sc.kind, sc.after)
			mk := func() *simnet.Conn {
				a, _ := simnet.Pipe("c:"+addr, addr, simnet.Options{})
				conns = append(conns, a)
				simrt.Ev("established", "%s #%d", addr, len(conns))
				return a
			}
			switch sc.kind {
			case 0, 1, 4:
				if sc.after > 0 {
					tm := time.NewTimer(sc.after)
					i, _, _ := simrt.Select(0, false, simrt.SelRecv(ctx.Done()), simrt.SelRecv(tm.C))
					tm.Stop()
					if i == 0 {
						simrt.Ev("dial-cancelled", "%s", addr)
						return nil, ctx.Err()
					}
				}
				if sc.kind == 1 {
					simrt.FaultFired("dial-fail", "%s", addr)
					return nil, sc.err
				}
				c := mk()
				if sc.kind == 4 {
					simrt.FaultFired("reset-before-handshake", "%s", addr)
					c.Reset()
				}
				return c, nil
			case 2:
				simrt.FaultFired("dial-hang", "%s", addr)
				simrt.Recv(0, ctx.Done())
				return nil, ctx.Err()
			default:
				// a dialer that does not honour cancellation promptly: the TCP
				// connection gets established after the race was decided
				simrt.FaultFired("dial-late-success", "%s", addr)
				simrt.Recv(0, ctx.Done())
				simrt.Sleep(0, sc.late)
				return mk(), nil
			}
		}
		proto := simrt.Pick(tape, simrt.Cfg, transport.Intermediate, transport.Abridged, transport.PaddedIntermediate, transport.Full)
		r := dcs.Plain(dcs.PlainOptions{Dial: dial, Protocol: proto, Rand: simrand.New(tape), Obfuscated: obfs})
		ctx, cancel := context.WithCancel(context.Background())
		defer cancel()
		ck := tape.Choose(simrt.Wl, 3) // 0 none, 1 cancel at grid time, 2 deadline
		if anyHang && ck == 0 {
			ck = 1 + tape.Choose(simrt.Wl, 2)
		}
		d := time.Duration(tape.Choose(simrt.Wl, 6)) * 50 * time.Millisecond
		switch ck {
		case 1:
			cancelT = d
			simrt.Go("canceller", func() {
				simrt.Sleep(0, d)
				simrt.FaultFired("caller-cancel", "")
				cancel()
			})
		case 2:
			cancelT = d
			var c2 context.CancelFunc
			ctx, c2 = context.WithTimeout(ctx, d)
			defer c2()
		}
		list := dcs.List{Options: opts}
		simrt.Ev("resolve", "n=%d which=%d obfs=%v cancel=%d@%v", n, which, obfs, ck, d)
		switch which {
		case 0:
			retConn, retErr = r.Primary(ctx, 2, list)
		case 1:
			retConn, retErr = r.MediaOnly(ctx, 2, list)
		default:
			retConn, retErr = r.CDN(ctx, 2, list)
		}
		returned = true
		simrt.Ev("resolved", "conn=%v err=%v", retConn != nil, retErr)
		// quiescence: let every racing dial finish and clean up
		simrt.Sleep(0, 5*time.Second)
		// counted while the caller's context is still alive (unless the run
		// itself cancelled it): a loser parked until the caller gives up is a leak
		for _, c := range conns {
			if !c.IsClosed() {
				open++
			}
		}
	})
	if out.HarnessErr != "" {
		return out
	}
	if out.Panic != "" {
		if out.PanicInRepo() {
			out.AddViolation("C42", "C42.panic", "panic", "resolver panicked: %s", out.PanicLine())
		} else {
			out.HarnessErr = "panic in world dial: " + out.Panic
		}
		return out
	}
	if !returned {
		out.AddViolation("C42", "C42.never-returned", "never-returned", "resolver call did not return (stuck=%v %v)", out.Stuck, out.StuckTasks)
		return out
	}
	ctxEnded := cancelT >= 0
	if retConn != nil && retErr == nil {
		if open != 1 {
			out.AddViolation("C42", "C42.open-count", fmt.Sprintf("returned-conn open=%d", min(open, 2)),
				"resolver returned a connection; %d of %d established connections are open at quiescence (want exactly 1)", open, len(conns))
		} else {
			_ = retConn.Close()
			for _, c := range conns {
				if !c.IsClosed() {
					out.AddViolation("C42", "C42.wrong-conn-open", "wrong-conn-open", "the connection left open (%s) is not the one that was returned", c.Name)
				}
			}
		}
		return out
	}
	if retConn != nil && retErr != nil {
		out.AddViolation("C42", "C42.conn-and-error", "conn-and-error", "resolver returned both a connection and error %v", retErr)
	}
	if open != 0 {
		out.AddViolation("C42", "C42.leak-on-error", fmt.Sprintf("leak-on-error cancelled=%v", ctxEnded),
			"resolver returned error %v; %d of %d established connections left open", retErr, open, len(conns))
	}
	// error content
	isCtx := errors.Is(retErr, context.Canceled) || errors.Is(retErr, context.DeadlineExceeded)
	allFailed := len(order) > 0
	for _, a := range order {
		if k := scripts[a].kind; k != 1 && k != 4 {
			allFailed = false
		}
	}
	if allFailed && !ctxEnded {
		for _, a := range order {
			sc := scripts[a]
			if sc.kind == 1 && !errors.Is(retErr, sc.err) {
				out.AddViolation("C42", "C42.error-not-combined", "error-not-combined", "all %d dials failed, but the returned error %q does not include the failure of %s", len(order), retErr, a)
			}
		}
	}
	if !isCtx && !allFailed && !ctxEnded {
		// some dial would have succeeded and nobody cancelled: an error is unexplained
		ok := false
		for _, a := range order {
			if scripts[a].kind == 0 {
				ok = true
			}
		}
		if ok {
			out.AddViolation("C42", "C42.spurious-error", "spurious-error", "a dial succeeds and the caller did not cancel, yet the resolver returned %v", retErr)
		}
	}
	return out
}
