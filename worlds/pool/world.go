// Package pool is world W5: the real pool.DC over fake connections whose
// readiness, death and Invoke behaviour are tape decisions, with caller tasks
// that cancel and time out. Decides C27 and C28.
package pool

import (
	"context"
	"errors"
	"fmt"
	"sort"
	"strings"
	"testing"
	"time"

	"github.com/gotd/td/bin"
	tdpool "github.com/gotd/td/pool"
	"github.com/gotd/td/rpc"

	"verif/dst"
	"verif/simrt"
)

var World = dst.World{
	Name:  "pool",
	Props: []string{"C27", "C28"},
	Run:   run,
	Real:  []string{"pool.DC (acquire, release, dead, Invoke, Close)", "pool.reqMap", "tdsync.Supervisor/Ready/ResetReady"},
	Stub:  []string{"pool.Conn (fake connection: Run/Ready/Invoke/death)", "caller tasks, cancellers, killer"},
}

type conn struct {
	id        int
	w         *world
	ready     chan struct{}
	die       chan struct{}
	readyIn   time.Duration // <0: never becomes ready
	killed    bool          // harness decided it is dead (or its context ended)
	killedT   time.Duration
	runRet    bool
	runRetT   time.Duration
	inUse     int
	invokes   int
	lastEnd   time.Duration
	createdBy string
	probeUsed bool
	becameRdy bool
}

type world struct {
	tape    *simrt.Tape
	max     int
	conns   []*conn
	probing bool
	inside  int
	release chan struct{}
	dcDone  bool
}

func (w *world) live() int {
	n := 0
	for _, c := range w.conns {
		if !c.killed {
			n++
		}
	}
	return n
}

func (c *conn) Run(ctx context.Context) error {
	simrt.Ev("conn-run", "conn=%d", c.id)
	var tm <-chan time.Time
	if c.readyIn >= 0 {
		t := time.NewTimer(c.readyIn)
		defer t.Stop()
		tm = t.C
	}
	// a connection that never becomes ready fails to connect and dies after -readyIn
	var failC <-chan time.Time
	if c.readyIn < 0 {
		ft := time.NewTimer(-c.readyIn)
		defer ft.Stop()
		failC = ft.C
	}
	for {
		i, _, _ := simrt.Select(0, false, simrt.SelRecv(ctx.Done()), simrt.SelRecv(c.die), simrt.SelRecv(tm), simrt.SelRecv(failC))
		if i == 2 {
			tm = nil
			c.becameRdy = true
			close(c.ready)
			simrt.Ev("conn-ready", "conn=%d", c.id)
			continue
		}
		if !c.killed && i != 0 {
			c.killed, c.killedT = true, simrt.Now()
		}
		// i == 0: the pool's own context ended (DC closed at the end of the
		// run); the connection was alive until then.
		c.runRet, c.runRetT = true, simrt.Now()
		simrt.Ev("conn-run-return", "conn=%d via=%d", c.id, i)
		return errors.New("fake connection ended")
	}
}

func (c *conn) Ready() <-chan struct{}         { return c.ready }
func (c *conn) Ping(ctx context.Context) error { return nil }

func (c *conn) Invoke(ctx context.Context, input bin.Encoder, output bin.Decoder) error {
	w := c.w
	c.inUse++
	c.invokes++
	simrt.Ev("invoke-begin", "conn=%d inuse=%d", c.id, c.inUse)
	if c.inUse > 1 {
		simrt.Violate("C27", "C27.shared", "shared", "connection %d handed to a second caller while in use (%d concurrent Invokes)", c.id, c.inUse)
	}
	if c.runRet && simrt.Now() > c.runRetT {
		simrt.Violate("C27", "C27.dead-handout", "dead-handout", "connection %d handed out at %v although it died at %v", c.id, simrt.Now(), c.runRetT)
	}
	defer func() {
		c.inUse--
		c.lastEnd = simrt.Now()
		simrt.Ev("invoke-end", "conn=%d", c.id)
	}()
	if c.killed || c.runRet {
		return tdpool.ErrConnDead
	}
	if w.probing {
		c.probeUsed = true
		w.inside++
		simrt.Ev("probe-inside", "conn=%d inside=%d", c.id, w.inside)
		if w.inside == w.max {
			close(w.release)
		}
		i, _, _ := simrt.Select(0, false, simrt.SelRecv(w.release), simrt.SelRecv(ctx.Done()), simrt.SelRecv(c.die))
		if i != 0 {
			w.inside--
			return ctx.Err()
		}
		return nil
	}
	// ordinary invoke: takes simulated time, may observe death, may fail
	d := time.Duration(w.tape.Choose(simrt.Net, 4)) * 100 * time.Millisecond
	outcome := w.tape.Choose(simrt.Net, 10)
	if d > 0 {
		tm := time.NewTimer(d)
		i, _, _ := simrt.Select(0, false, simrt.SelRecv(tm.C), simrt.SelRecv(ctx.Done()), simrt.SelRecv(c.die))
		tm.Stop()
		switch i {
		case 1:
			return ctx.Err()
		case 2:
			switch w.tape.Choose(simrt.Net, 3) {
			case 0:
				return tdpool.ErrConnDead
			case 1:
				return fmt.Errorf("wrapped: %w", rpc.ErrEngineClosed)
			}
			// the result had already arrived when the connection died: the
			// call completes normally on a connection that is now dead
			simrt.Probe("invoke-completes-on-dead-conn")
		}
	}
	switch outcome {
	case 0:
		return errors.New("rpc error: SOMETHING_INVALID")
	}
	return nil
}

func run(t *testing.T, tape *simrt.Tape, env dst.Env) *simrt.Outcome {
	w := &world{tape: tape}
	var probeOK, probeRan bool
	var probeErrs []string
	out := simrt.Run(t, tape, simrt.Options{Policy: -1}, func(s *simrt.Sim) {
		w.max = tape.Range(simrt.Cfg, 1, 3)
		callers := tape.Range(simrt.Cfg, 1, 5)
		faulty := tape.Coin(simrt.Cfg, 4, 5)
		if faulty {
			simrt.Probe("cfg:faults-on")
		} else {
			simrt.Probe("cfg:fault-free")
		}
		w.release = make(chan struct{})
		ctx, cancel := context.WithCancel(context.Background())
		defer cancel()
		dc := tdpool.NewDC(ctx, 2, func() tdpool.Conn {
			c := &conn{id: len(w.conns) + 1, w: w, ready: make(chan struct{}), die: make(chan struct{})}
			_, c.createdBy = simrt.CurrentTask()
			switch {
			case w.probing:
				c.readyIn = 0
			case faulty && tape.Coin(simrt.Net, 1, 10):
				c.readyIn = -time.Duration(1+tape.Choose(simrt.Net, 4)) * 250 * time.Millisecond
				simrt.FaultFired("never-ready", "conn=%d dies after %v", c.id, -c.readyIn)
			default:
				c.readyIn = time.Duration(tape.Choose(simrt.Net, 4)) * 100 * time.Millisecond
			}
			w.conns = append(w.conns, c)
			simrt.Ev("conn-create", "conn=%d by=%s readyIn=%v live=%d max=%d", c.id, c.createdBy, c.readyIn, w.live(), w.max)
			if l := w.live(); l > w.max {
				simrt.Violate("C27", "C27.over-limit", "over-limit", "%d live connections, configured maximum %d", l, w.max)
			}
			return c
		}, tdpool.DCOptions{MaxOpenConnections: int64(w.max)})

		done := make(chan struct{}, callers)
		for i := 0; i < callers; i++ {
			n := tape.Range(simrt.Wl, 1, 3)
			type plan struct {
				kind  int
				after time.Duration
				pause time.Duration
			}
			plans := make([]plan, n)
			for k := range plans {
				plans[k] = plan{kind: tape.Choose(simrt.Wl, 4), after: time.Duration(tape.Choose(simrt.Wl, 5)) * 50 * time.Millisecond,
					pause: time.Duration(tape.Choose(simrt.Wl, 3)) * 100 * time.Millisecond}
				if !faulty {
					plans[k].kind = 0
				}
			}
			name := fmt.Sprintf("caller%d", i)
			simrt.Go(name, func() {
				defer func() { simrt.Send(0, done, struct{}{}) }()
				for _, p := range plans {
					simrt.Sleep(0, p.pause)
					cctx, ccancel := context.WithCancel(ctx)
					switch p.kind {
					case 2: // cancelled by another task after a grid delay
						d := p.after
						simrt.Go("canceller", func() {
							simrt.Sleep(0, d)
							simrt.FaultFired("cancel", "%s", name)
							ccancel()
						})
					case 3: // deadline
						var c2 context.CancelFunc
						cctx, c2 = context.WithTimeout(cctx, p.after+50*time.Millisecond)
						defer c2()
					}
					simrt.Ev("call", "%s kind=%d", name, p.kind)
					err := dc.Invoke(cctx, nil, nil)
					simrt.Ev("call-return", "%s err=%v", name, err)
					ccancel()
				}
			})
		}
		if faulty {
			simrt.Go("killer", func() {
				n := tape.Range(simrt.Fault, 0, 3)
				for k := 0; k < n; k++ {
					simrt.Sleep(0, time.Duration(tape.Choose(simrt.Fault, 6))*50*time.Millisecond)
					if len(w.conns) == 0 {
						continue
					}
					c := w.conns[tape.Choose(simrt.Fault, len(w.conns))]
					if !c.killed {
						c.killed, c.killedT = true, simrt.Now()
						simrt.FaultFired("conn-death", "conn=%d", c.id)
						close(c.die)
					}
				}
			})
		}
		for i := 0; i < callers; i++ {
			simrt.Recv(0, done)
		}
		// quiet phase: no more deaths or cancellations. Let bookkeeping settle.
		simrt.Sleep(0, 2*time.Second)
		simrt.Ev("probe-start", "live=%d max=%d conns=%d", w.live(), w.max, len(w.conns))
		w.probing = true
		probeRan = true
		pd := make(chan error, w.max)
		for i := 0; i < w.max; i++ {
			simrt.Go(fmt.Sprintf("probe%d", i), func() {
				pctx, pc := context.WithTimeout(ctx, time.Hour)
				defer pc()
				simrt.Send(0, pd, dc.Invoke(pctx, nil, nil))
			})
		}
		ok := true
		for i := 0; i < w.max; i++ {
			if err, _ := simrt.Recv(0, pd); err != nil {
				ok = false
				probeErrs = append(probeErrs, err.Error())
			}
		}
		probeOK = ok
		simrt.Ev("probe-done", "ok=%v", ok)
		w.probing = false
		cancel()
		_ = dc.Close()
		w.dcDone = true
	})
	if out.HarnessErr != "" {
		return out
	}
	if out.Panic != "" {
		if !out.PanicInRepo() {
			out.HarnessErr = "panic in world pool task " + out.PanicTask + ": " + out.Panic
			return out
		}
		// the pool itself panicked (e.g. its own accounting assertion): its
		// bookkeeping of live/free connections is broken
		for _, p := range []string{"C27", "C28"} {
			out.AddViolation(p, p+".pool-panic", "pool-panic", "pool code panicked in task %s: %s", out.PanicTask, out.PanicLine())
		}
		return out
	}
	if !probeRan || !probeOK {
		// classify what was lost, black-box: live connections the probe never got
		var classes []string
		seen := map[string]bool{}
		for _, c := range w.conns {
			if c.killed || c.probeUsed {
				continue
			}
			cl := "leak:idle-after-use"
			if c.invokes == 0 {
				cl = "leak:never-used"
			}
			if !seen[cl] {
				seen[cl] = true
				classes = append(classes, cl)
			}
		}
		sort.Strings(classes)
		if len(classes) == 0 {
			classes = []string{"no-live-connection-leaked"}
		}
		out.AddViolation("C28", "C28.capacity-lost", strings.Join(classes, "+"),
			"after faults stopped, %d concurrent callers could not all be served (max=%d, live=%d, probe ran=%v, errors=%v, stuck=%v %v): capacity lost (%s)",
			w.max, w.max, w.live(), probeRan, probeErrs, out.Stuck, out.StuckTasks, strings.Join(classes, "+"))
	}
	return out
}
