package exchange

import (
	"context"
	"crypto/rsa"
	"crypto/sha1"
	"fmt"
	"io"
	"math/big"
	"time"

	"github.com/gotd/td/bin"
	"github.com/gotd/td/crypto"
	"github.com/gotd/td/mt"
	"github.com/gotd/td/proto"

	"verif/simrt"
)

// knobs describe how the scripted peer deviates from an honest server. The
// zero value is an honest server that holds the private key of the
// fingerprint it advertises, uses the well-known safe prime and g = 3.
type knobs struct {
	silentAt int // 1..3: never answers that request of the exchange

	noPrivKey   bool    // cannot decrypt p_q_inner_data: guesses new_nonce
	advertise   []int64 // fingerprints of ResPQ (nil: the one of its key)
	resNonce    bool    // ResPQ.nonce altered
	dhNonce     bool    // server_DH_params_ok.nonce altered
	dhSrvNonce  bool    // server_DH_params_ok.server_nonce altered
	answerMut   int     // 1 bit flip, 2 truncated by a block, 3 extended by a block, 4 first block replaced
	inNonce     bool    // server_DH_inner_data.nonce altered (correctly encrypted)
	inSrvNonce  bool    // server_DH_inner_data.server_nonce altered
	prime       string  // "" = telegram; else a key of primes, or "composite", "even"
	g           int     // 0 = 3
	gaKind      int     // 0 honest, see gaOf
	dhFail      bool    // answers server_DH_params_fail
	genNonce    bool    // dh_gen_ok.nonce altered
	genSrvNonce bool    // dh_gen_ok.server_nonce altered
	genHash     int     // 1 bit flip in new_nonce_hash1, 2 hash2 in its place, 3 hash of another key
	genKind     int     // 1 dh_gen_retry, 2 dh_gen_fail
	replayStep  int     // 2: sends its step-1 answer again at step 2; 3: its step-2 answer again at step 3
	answerFrom  [][]byte // frames of an earlier exchange to answer with (replay across exchanges), by step (1-based index-1)
}

// script is the scripted peer: one server side of the key exchange.
type script struct {
	tape *simrt.Tape
	conn *end
	clk  *simClock
	rnd  io.Reader
	priv *rsa.PrivateKey
	k    knobs

	stepAt  [4]time.Duration // arrival of the client's k-th request (-1: not yet)
	key     crypto.Key
	salt    int64
	done    bool // sent its final answer
	frames  [][]byte
	failure string // why the script itself stopped (a malformed client message)
}

func newScript(tape *simrt.Tape, conn *end, clk *simClock, rnd io.Reader, priv *rsa.PrivateKey, k knobs) *script {
	return &script{tape: tape, conn: conn, clk: clk, rnd: rnd, priv: priv, k: k, stepAt: [4]time.Duration{-1, -1, -1, -1}}
}

func flip128(v bin.Int128, t *simrt.Tape) bin.Int128 {
	v[t.Choose(simrt.Fault, 16)] ^= 1 << t.Choose(simrt.Fault, 8)
	return v
}

func (s *script) send(step int, payload bin.Encoder) {
	var b bin.Buffer
	if err := payload.Encode(&b); err != nil {
		panic(err)
	}
	msg := proto.UnencryptedMessage{MessageID: int64(proto.NewMessageID(s.clk.Now(), proto.MessageServerResponse)), MessageData: b.Copy()}
	var out bin.Buffer
	if err := msg.Encode(&out); err != nil {
		panic(err)
	}
	if len(s.k.answerFrom) >= step && s.k.answerFrom[step-1] != nil {
		out.Buf = append([]byte(nil), s.k.answerFrom[step-1]...)
	}
	s.frames = append(s.frames, append([]byte(nil), out.Buf...))
	_ = s.conn.Send(context.Background(), &out)
}

// read returns the payload of the next unencrypted client message; first is
// the raw frame when it is not an unencrypted message.
func (s *script) read() (payload []byte, raw []byte, ok bool) {
	f, ok := s.conn.recvRaw()
	if !ok {
		return nil, nil, false
	}
	if len(f) >= 8 && [8]byte(f[:8]) != ([8]byte{}) {
		return nil, f, true
	}
	var msg proto.UnencryptedMessage
	if err := msg.Decode(&bin.Buffer{Buf: f}); err != nil {
		s.failure = "client frame: " + err.Error()
		return nil, nil, false
	}
	return msg.MessageData, nil, true
}

func (s *script) silence() {
	// keeps the link open and never answers
	simrt.Recv(0, s.conn.closed)
}

func (s *script) modulus() *big.Int {
	switch s.k.prime {
	case "":
		return primes["telegram"]
	case "composite":
		return new(big.Int).Add(primes["telegram"], big.NewInt(2))
	case "even":
		return new(big.Int).Add(primes["telegram"], big.NewInt(1))
	default:
		return primes[s.k.prime]
	}
}

func gaOf(kind int, g, a, p *big.Int) *big.Int {
	lo := new(big.Int).Lsh(big.NewInt(1), crypto.RSAKeyBits-64)
	switch kind {
	case 1:
		return big.NewInt(0)
	case 2:
		return big.NewInt(1)
	case 3:
		return new(big.Int).Sub(p, big.NewInt(1))
	case 4:
		return new(big.Int).Set(p)
	case 5:
		return new(big.Int).Add(p, big.NewInt(1))
	case 6: // just below the lower safety bound
		return new(big.Int).Sub(lo, big.NewInt(1))
	case 7: // just above the upper safety bound
		return new(big.Int).Add(new(big.Int).Sub(p, lo), big.NewInt(1))
	case 8:
		return new(big.Int).Lsh(big.NewInt(1), 1000)
	case 9: // g itself (a = 1)
		return new(big.Int).Set(g)
	default:
		return new(big.Int).Exp(g, a, p)
	}
}

// run performs one exchange as the server. It returns when the exchange is
// over from its side (final answer sent, client vanished, or silence ended by
// the link closing). An encrypted frame in place of a request is returned.
func (s *script) run(first []byte) (encrypted []byte) {
	// step 1
	payload := first
	if payload == nil {
		p, raw, ok := s.read()
		if !ok {
			return nil
		}
		if raw != nil {
			return raw
		}
		payload = p
	}
	var req mt.ReqPqMultiRequest
	if err := req.Decode(&bin.Buffer{Buf: payload}); err != nil {
		s.failure = "req_pq_multi: " + err.Error()
		return nil
	}
	s.stepAt[1] = simrt.Now()
	simrt.Ev("script-step", "1 req_pq_multi")
	if s.k.silentAt == 1 {
		s.silence()
		return nil
	}
	var serverNonce bin.Int128
	if _, err := io.ReadFull(s.rnd, serverNonce[:]); err != nil {
		panic(err)
	}
	fps := s.k.advertise
	if fps == nil {
		fps = []int64{crypto.RSAFingerprint(&s.priv.PublicKey)}
	}
	res := &mt.ResPQ{Nonce: req.Nonce, ServerNonce: serverNonce, Pq: big.NewInt(0x17ED48941A08F981).Bytes(), ServerPublicKeyFingerprints: fps}
	if s.k.resNonce {
		res.Nonce = flip128(res.Nonce, s.tape)
	}
	s.send(1, res)

	// step 2
	p2, raw, ok := s.read()
	if !ok || raw != nil {
		return raw
	}
	var dh mt.ReqDHParamsRequest
	if err := dh.Decode(&bin.Buffer{Buf: p2}); err != nil {
		s.failure = "req_DH_params: " + err.Error()
		return nil
	}
	s.stepAt[2] = simrt.Now()
	simrt.Ev("script-step", "2 req_DH_params")
	if s.k.silentAt == 2 {
		s.silence()
		return nil
	}
	if s.k.replayStep == 2 {
		_ = s.conn.Send(context.Background(), &bin.Buffer{Buf: append([]byte(nil), s.frames[0]...)})
		s.silence()
		return nil
	}
	var newNonce bin.Int256
	if s.k.noPrivKey {
		if _, err := io.ReadFull(s.rnd, newNonce[:]); err != nil {
			panic(err)
		}
	} else {
		r, err := crypto.DecodeRSAPad(dh.EncryptedData, s.priv)
		if err != nil {
			s.failure = "p_q_inner_data: " + err.Error()
			return nil
		}
		d, err := mt.DecodePQInnerData(&bin.Buffer{Buf: r})
		if err != nil {
			s.failure = "p_q_inner_data: " + err.Error()
			return nil
		}
		newNonce = d.GetNewNonce()
		if d.GetNonce() != req.Nonce || d.GetServerNonce() != serverNonce {
			s.failure = "p_q_inner_data nonces do not match"
			return nil
		}
	}
	if s.k.dhFail {
		s.send(2, &mt.ServerDHParamsFail{Nonce: req.Nonce, ServerNonce: serverNonce})
		s.silence()
		return nil
	}
	p := s.modulus()
	gInt := s.k.g
	if gInt == 0 {
		gInt = 3
	}
	g := big.NewInt(int64(gInt))
	abuf := make([]byte, 256)
	if _, err := io.ReadFull(s.rnd, abuf); err != nil {
		panic(err)
	}
	a := new(big.Int).SetBytes(abuf)
	switch s.k.gaKind {
	case 9:
		a = big.NewInt(1) // g_a = g: the peer can finish the exchange consistently
	case 10, 11:
		a = big.NewInt(int64(2 + s.tape.Choose(simrt.Fault, 60))) // g_a = g^a far below the safety bound, exponent known
	}
	ga := gaOf(s.k.gaKind, g, a, p)
	if s.k.gaKind == 11 {
		// g_a = -g^a mod p: above the upper safety bound, and the shared key is
		// +-g_b^a, which the peer can still guess
		ga = new(big.Int).Sub(p, new(big.Int).Exp(g, a, p))
	}
	if s.k.gaKind == 0 {
		// an honest server keeps g_a inside the safety range
		lo := new(big.Int).Lsh(big.NewInt(1), crypto.RSAKeyBits-64)
		for i := 0; i < 64 && (ga.Cmp(lo) <= 0 || ga.Cmp(new(big.Int).Sub(p, lo)) >= 0); i++ {
			a.Add(a, big.NewInt(1))
			ga = new(big.Int).Exp(g, a, p)
		}
	}
	inner := mt.ServerDHInnerData{Nonce: req.Nonce, ServerNonce: serverNonce, G: gInt, GA: ga.Bytes(), DhPrime: p.Bytes(), ServerTime: int(s.clk.Now().Unix())}
	if s.k.inNonce {
		inner.Nonce = flip128(inner.Nonce, s.tape)
	}
	if s.k.inSrvNonce {
		inner.ServerNonce = flip128(inner.ServerNonce, s.tape)
	}
	var ib bin.Buffer
	if err := inner.Encode(&ib); err != nil {
		panic(err)
	}
	key, iv := crypto.TempAESKeys(newNonce.BigInt(), serverNonce.BigInt())
	answer, err := crypto.EncryptExchangeAnswer(s.rnd, ib.Raw(), key, iv)
	if err != nil {
		panic(err)
	}
	switch s.k.answerMut {
	case 1:
		answer[s.tape.Choose(simrt.Fault, len(answer))] ^= 1 << s.tape.Choose(simrt.Fault, 8)
	case 2:
		answer = answer[:len(answer)-16]
	case 3:
		extra := make([]byte, 16)
		s.tape.Fill(simrt.Fault, extra)
		answer = append(answer, extra...)
	case 4:
		s.tape.Fill(simrt.Fault, answer[:16])
	}
	ok2 := &mt.ServerDHParamsOk{Nonce: req.Nonce, ServerNonce: serverNonce, EncryptedAnswer: answer}
	if s.k.dhNonce {
		ok2.Nonce = flip128(ok2.Nonce, s.tape)
	}
	if s.k.dhSrvNonce {
		ok2.ServerNonce = flip128(ok2.ServerNonce, s.tape)
	}
	s.send(2, ok2)

	// step 3
	p3, raw, ok := s.read()
	if !ok || raw != nil {
		return raw
	}
	var set mt.SetClientDHParamsRequest
	if err := set.Decode(&bin.Buffer{Buf: p3}); err != nil {
		s.failure = "set_client_DH_params: " + err.Error()
		return nil
	}
	s.stepAt[3] = simrt.Now()
	simrt.Ev("script-step", "3 set_client_DH_params")
	if s.k.silentAt == 3 {
		s.silence()
		return nil
	}
	if s.k.replayStep == 3 {
		_ = s.conn.Send(context.Background(), &bin.Buffer{Buf: append([]byte(nil), s.frames[1]...)})
		s.silence()
		return nil
	}
	dec, err := crypto.DecryptExchangeAnswer(set.EncryptedData, key, iv)
	var cin mt.ClientDHInnerData
	if err == nil {
		err = cin.Decode(&bin.Buffer{Buf: dec})
	}
	var authKey crypto.Key
	if err == nil {
		gb := new(big.Int).SetBytes(cin.GB)
		shared := new(big.Int).Exp(gb, a, p)
		if s.k.gaKind == 11 && s.tape.Coin(simrt.Fault, 1, 2) {
			shared.Sub(p, shared) // the other sign
		}
		shared.FillBytes(authKey[:])
	} else {
		// the peer without the private key cannot read g_b either: it answers blind
		s.tape.Fill(simrt.Fault, authKey[:])
	}
	hash := crypto.NonceHash1(newNonce, authKey)
	switch s.k.genHash {
	case 1:
		hash = flip128(hash, s.tape)
	case 2:
		hash = nonceHashN(newNonce, authKey, 2)
	case 3:
		other := authKey
		other[s.tape.Choose(simrt.Fault, 256)] ^= 1 << s.tape.Choose(simrt.Fault, 8)
		hash = crypto.NonceHash1(newNonce, other)
	}
	var final bin.Encoder
	gen := &mt.DhGenOk{Nonce: req.Nonce, ServerNonce: serverNonce, NewNonceHash1: hash}
	if s.k.genNonce {
		gen.Nonce = flip128(gen.Nonce, s.tape)
	}
	if s.k.genSrvNonce {
		gen.ServerNonce = flip128(gen.ServerNonce, s.tape)
	}
	final = gen
	switch s.k.genKind {
	case 1:
		final = &mt.DhGenRetry{Nonce: req.Nonce, ServerNonce: serverNonce, NewNonceHash2: nonceHashN(newNonce, authKey, 2)}
	case 2:
		final = &mt.DhGenFail{Nonce: req.Nonce, ServerNonce: serverNonce, NewNonceHash3: nonceHashN(newNonce, authKey, 3)}
	}
	s.key, s.salt = authKey, crypto.ServerSalt(newNonce, serverNonce)
	s.send(3, final)
	s.done = true
	return nil
}

// nonceHashN is new_nonce_hash<n> of the specification (n = 1 is crypto.NonceHash1).
func nonceHashN(newNonce bin.Int256, key crypto.Key, n byte) (r bin.Int128) {
	var buf []byte
	buf = append(buf, newNonce[:]...)
	buf = append(buf, n)
	kh := sha1.Sum(key[:])
	buf = append(buf, kh[0:8]...)
	h := sha1.Sum(buf)
	copy(r[:], h[4:20])
	return r
}

func describe(k knobs) string {
	switch {
	case k.silentAt != 0:
		return fmt.Sprintf("silent at step %d", k.silentAt)
	case k.noPrivKey:
		return "peer without the private key of the advertised fingerprint"
	case k.advertise != nil:
		return "peer advertising only an untrusted fingerprint"
	case k.resNonce:
		return "ResPQ nonce altered"
	case k.dhNonce:
		return "server_DH_params_ok nonce altered"
	case k.dhSrvNonce:
		return "server_DH_params_ok server_nonce altered"
	case k.answerMut != 0:
		return [...]string{"", "encrypted answer: bit flip", "encrypted answer: truncated", "encrypted answer: extended", "encrypted answer: first block replaced"}[k.answerMut]
	case k.inNonce:
		return "server_DH_inner_data nonce altered"
	case k.inSrvNonce:
		return "server_DH_inner_data server_nonce altered"
	case k.prime != "" && k.prime != "safe2048b":
		return "dh_prime substituted: " + k.prime
	case k.g != 0 && !specGOK(k.g, primeOf(k.prime)):
		return fmt.Sprintf("generator %d is not acceptable for the prime", k.g)
	case k.gaKind != 0:
		return fmt.Sprintf("g_a out of range (kind %d)", k.gaKind)
	case k.dhFail:
		return "server_DH_params_fail"
	case k.genNonce:
		return "dh_gen_ok nonce altered"
	case k.genSrvNonce:
		return "dh_gen_ok server_nonce altered"
	case k.genHash != 0:
		return [...]string{"", "new_nonce_hash1: bit flip", "new_nonce_hash2 in place of hash1", "new_nonce_hash1 of another key"}[k.genHash]
	case k.genKind != 0:
		return [...]string{"", "dh_gen_retry", "dh_gen_fail"}[k.genKind]
	case k.replayStep != 0:
		return fmt.Sprintf("own step-%d answer sent again at step %d", k.replayStep-1, k.replayStep)
	case k.answerFrom != nil:
		return "answers replayed from an earlier exchange"
	}
	return ""
}

func primeOf(name string) *big.Int {
	if name == "" {
		return primes["telegram"]
	}
	return primes[name]
}

// specGOK is the published rule for g in {2..7} generating the subgroup of
// quadratic residues of a safe prime p.
func specGOK(g int, p *big.Int) bool {
	mod := func(m int64) int64 { return new(big.Int).Mod(p, big.NewInt(m)).Int64() }
	switch g {
	case 2:
		return mod(8) == 7
	case 3:
		return mod(3) == 2
	case 4:
		return true
	case 5:
		return mod(5) == 1 || mod(5) == 4
	case 6:
		return mod(24) == 19 || mod(24) == 23
	case 7:
		return mod(7) == 3 || mod(7) == 5 || mod(7) == 6
	}
	return false
}

var _ = time.Second
