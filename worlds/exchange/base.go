// Package exchange is world W3: the real client key-exchange flow
// (exchange.ClientExchange, and mtproto.Conn's connect / PFS / key
// regeneration around it) against the in-tree server flow, a scripted peer
// and a man in the middle, over a frame-level simulated transport with
// latency, stalls and tampering. Decides C09, C10, C12.
package exchange

import (
	"context"
	"crypto/rsa"
	"crypto/x509"
	"embed"
	"encoding/json"
	"encoding/pem"
	"errors"
	"io"
	"math/big"
	"net"
	"os"
	"time"

	"github.com/gotd/td/bin"
	"github.com/gotd/td/clock"
	tdx "github.com/gotd/td/exchange"
	"github.com/gotd/td/proto/codec"
	"github.com/gotd/td/transport"

	"verif/simrt"
)

//go:embed testdata/*
var testdata embed.FS

// fixed material (generated once with openssl; see DESIGN.md appendix):
// RSA keys and DH moduli of known shape
var (
	keyTrusted, keyTrusted2, keyAdversary *rsa.PrivateKey
	primes                                = map[string]*big.Int{}
)

func mustKey(name string) *rsa.PrivateKey {
	raw, err := testdata.ReadFile("testdata/" + name)
	if err != nil {
		panic(err)
	}
	blk, _ := pem.Decode(raw)
	k, err := x509.ParsePKCS1PrivateKey(blk.Bytes)
	if err != nil {
		panic(err)
	}
	return k
}

func init() {
	keyTrusted, keyTrusted2, keyAdversary = mustKey("trusted.pem"), mustKey("trusted2.pem"), mustKey("adversary.pem")
	raw, err := testdata.ReadFile("testdata/primes.json")
	if err != nil {
		panic(err)
	}
	m := map[string]string{}
	if err := json.Unmarshal(raw, &m); err != nil {
		panic(err)
	}
	for k, v := range m {
		n, ok := new(big.Int).SetString(v, 10)
		if !ok {
			panic("bad prime " + k)
		}
		primes[k] = n
	}
}

// simClock is clock.Clock = bubble time + offset.
type simClock struct{ off time.Duration }

func (c *simClock) Now() time.Time                      { return time.Now().Add(c.off) }
func (c *simClock) Timer(d time.Duration) clock.Timer   { return clock.System.Timer(d) }
func (c *simClock) Ticker(d time.Duration) clock.Ticker { return clock.System.Ticker(d) }

// ---- frame-level transport pair --------------------------------------------------------

// end is one side of a duplex frame pipe and implements transport.Conn. A
// 4-byte frame is a transport-level protocol error code, as with the real
// codecs.
type end struct {
	name   string
	in     chan []byte
	peer   *end
	closed chan struct{}
	isDown bool
	// out: every frame this end sends goes through filter (nil: unchanged),
	// then to the peer after latency()
	filter  func(data []byte) [][]byte
	latency func() time.Duration
	pump    chan pumped
	sent    int
	// stallSend: sends block until the context ends
	stallSend bool
}

type pumped struct {
	at   time.Duration
	data []byte
}

func newPipe() (a, b *end) {
	a = &end{name: "client", in: make(chan []byte, 256), closed: make(chan struct{}), pump: make(chan pumped, 256)}
	b = &end{name: "server", in: make(chan []byte, 256), closed: make(chan struct{}), pump: make(chan pumped, 256)}
	a.peer, b.peer = b, a
	for _, e := range []*end{a, b} {
		e := e
		simrt.Go("pump-"+e.name, func() {
			for {
				i, rv, ok := simrt.Select(0, false, simrt.SelRecv(e.pump), simrt.SelRecv(e.closed))
				if i != 0 || !ok {
					return
				}
				p := simrt.RecvVal(e.pump, rv)
				if d := p.at - simrt.Now(); d > 0 {
					simrt.Sleep(0, d)
				}
				if e.peer.isDown {
					continue
				}
				simrt.Send(0, e.peer.in, p.data)
			}
		})
	}
	return a, b
}

func timeoutErr(op string) error { return &net.OpError{Op: op, Net: "sim", Err: os.ErrDeadlineExceeded} }

func (e *end) Send(ctx context.Context, b *bin.Buffer) error {
	if e.isDown {
		return net.ErrClosed
	}
	if e.stallSend {
		i, _, _ := simrt.Select(0, false, simrt.SelRecv(ctx.Done()), simrt.SelRecv(e.closed))
		if i == 0 {
			return timeoutErr("write")
		}
		return net.ErrClosed
	}
	e.sent++
	frames := [][]byte{append([]byte(nil), b.Buf...)}
	if e.filter != nil {
		frames = e.filter(frames[0])
	}
	for _, f := range frames {
		var d time.Duration
		if e.latency != nil {
			d = e.latency()
		}
		simrt.Send(0, e.pump, pumped{at: simrt.Now() + d, data: f})
	}
	return nil
}

// inject delivers a frame to this end's reader as if the peer had sent it.
func (e *end) inject(data []byte) { simrt.Send(0, e.in, append([]byte(nil), data...)) }

func (e *end) Recv(ctx context.Context, b *bin.Buffer) error {
	i, rv, ok := simrt.Select(0, false, simrt.SelRecv(e.in), simrt.SelRecv(ctx.Done()), simrt.SelRecv(e.closed))
	switch i {
	case 0:
		if !ok {
			return io.EOF
		}
		f := simrt.RecvVal(e.in, rv)
		if len(f) == 4 {
			code := int32(uint32(f[0]) | uint32(f[1])<<8 | uint32(f[2])<<16 | uint32(f[3])<<24)
			return &codec.ProtocolErr{Code: -code}
		}
		b.ResetTo(append([]byte(nil), f...))
		return nil
	case 1:
		if errors.Is(ctx.Err(), context.DeadlineExceeded) {
			return timeoutErr("read")
		}
		return ctx.Err()
	default:
		return net.ErrClosed
	}
}

func (e *end) Close() error {
	if !e.isDown {
		e.isDown = true
		close(e.closed)
	}
	return nil
}

// recvRaw is the harness side read (no context).
func (e *end) recvRaw() ([]byte, bool) {
	i, rv, ok := simrt.Select(0, false, simrt.SelRecv(e.in), simrt.SelRecv(e.closed))
	if i != 0 || !ok {
		return nil, false
	}
	return simrt.RecvVal(e.in, rv), true
}

var _ transport.Conn = (*end)(nil)

func pub(k *rsa.PrivateKey) tdx.PublicKey { return tdx.PublicKey{RSA: &k.PublicKey} }
