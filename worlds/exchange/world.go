package exchange

import (
	"bytes"
	"context"
	"fmt"
	"math/big"
	"testing"
	"time"

	"github.com/gotd/td/bin"
	"github.com/gotd/td/crypto"
	tdx "github.com/gotd/td/exchange"
	"github.com/gotd/td/mtproto"
	"github.com/gotd/td/transport"

	"verif/dst"
	"verif/simrand"
	"verif/simrt"
)

var World = dst.World{
	Name:  "exchange",
	Props: []string{"C09", "C10", "C12"},
	Run:   run,
	Real: []string{"exchange.ClientExchange.Run", "exchange.ServerExchange.Run (C09, and behind the man in the middle of C10)", "crypto: RSAPad/DecodeRSAPad, DecomposePQ, TempAESKeys, Encrypt/DecryptExchangeAnswer, CheckDH, CheckGP, CheckDHParams, NonceHash1, ServerSalt",
		"mtproto.Conn connect / connectPFS / createAuthKey after auth-key-not-found (C12)"},
	Stub: []string{"frame-level transport.Conn pair with latency, stalls and a tampering filter", "scripted server endpoint with a deviation library (C10, C12)", "fixed RSA keys and DH moduli (testdata)", "clock.Clock = bubble time"},
}

func run(t *testing.T, tape *simrt.Tape, env dst.Env) *simrt.Outcome {
	scen := env.Prop
	if scen == "" {
		scen = simrt.Pick(tape, simrt.Cfg, "C09", "C10", "C12")
	}
	f := map[string]func(*testing.T, *simrt.Tape, dst.Env) *simrt.Outcome{"C09": runC09, "C10": runC10, "C12": runC12}[scen]
	out := f(t, tape, env)
	if out.HarnessErr == "" && out.Panic != "" {
		if out.PanicInRepo() {
			out.AddViolation(scen, scen+".panic", "panic", "library code panicked in task %s: %s", out.PanicTask, out.PanicLine())
		} else {
			out.HarnessErr = "panic in world exchange (" + scen + "): " + out.Panic
		}
	}
	return out
}

func latencyOf(tape *simrt.Tape) func() time.Duration {
	switch tape.Choose(simrt.Cfg, 3) {
	case 0:
		return nil
	case 1:
		return func() time.Duration { return time.Duration(tape.Choose(simrt.Net, 4)) * 20 * time.Millisecond }
	default:
		return func() time.Duration { return time.Duration(tape.Choose(simrt.Net, 5)) * time.Second }
	}
}

type cliResult struct {
	res tdx.ClientExchangeResult
	err error
}

// startClient runs the real client flow in a task.
func startClient(ctx context.Context, conn transport.Conn, clk *simClock, rnd *simrand.Reader, dc int, temp bool, expires int, timeout time.Duration, keys []tdx.PublicKey) chan cliResult {
	ch := make(chan cliResult, 1)
	simrt.Go("client-exchange", func() {
		ex := tdx.NewExchanger(conn, dc).WithClock(clk).WithRand(rnd).WithTimeout(timeout)
		if temp {
			ex = ex.WithTempMode(expires)
		}
		r, err := ex.Client(keys).Run(ctx)
		simrt.Ev("client-exchange-return", "err=%v", err)
		simrt.Send(0, ch, cliResult{r, err})
	})
	return ch
}

func checkClientKey(prop string, r tdx.ClientExchangeResult) {
	if r.AuthKey.Value == (crypto.Key{}) {
		simrt.Violate(prop, prop+".zero-key", "zero-key", "the client exchange succeeded with an all-zero auth key")
	}
	if r.AuthKey.ID != r.AuthKey.Value.ID() {
		simrt.Violate(prop, prop+".key-id", "key-id", "the client returned key id %x for a key whose id is %x", r.AuthKey.ID, r.AuthKey.Value.ID())
	}
}

// ---- C09 ------------------------------------------------------------------------------------

func runC09(t *testing.T, tape *simrt.Tape, env dst.Env) *simrt.Outcome {
	return simrt.Run(t, tape, simrt.Options{Policy: -1}, func(s *simrt.Sim) {
		viol := func(rule, sig, format string, args ...any) { simrt.Violate("C09", rule, sig, format, args...) }
		clk := &simClock{off: time.Duration(tape.Choose(simrt.Clock, 1000)-200) * time.Hour}
		dc := simrt.Pick(tape, simrt.Cfg, 1, 2, 3, 4, 5, 0, -1, -3, 10002, 203, 1<<31-1, -1<<31)
		temp := tape.Coin(simrt.Cfg, 1, 2)
		expires := simrt.Pick(tape, simrt.Cfg, 60, 86400, 1, 0)
		cliRnd, srvRnd := simrand.New(tape), simrand.New(tape)
		faults := false
		hunt := false
		switch tape.Choose(simrt.Cfg, 4) {
		case 0:
			cliRnd.ShortDen, srvRnd.ShortDen = 8, 8
			faults = true
		case 1:
			cliRnd.ErrDen, srvRnd.ErrDen = 40, 40
			cliRnd.ShortDen = 16
			faults = true
		case 2:
			hunt = true
		}
		if hunt {
			// Steer both DH exponents (a run of the tape like any other) so
			// that the shared key starts with zero bytes: a = tape value,
			// b = b0 + i with the first i that gives g^(ab) a leading zero.
			p, g := primes["telegram"], big.NewInt(3)
			abuf, bbuf := make([]byte, 256), make([]byte, 256)
			tape.Fill(simrt.Rand, abuf)
			tape.Fill(simrt.Rand, bbuf)
			bbuf[255] &^= 0xff // room for the search without carries
			bbuf[254] &^= 0x3f
			a, b := new(big.Int).SetBytes(abuf), new(big.Int).SetBytes(bbuf)
			ga := new(big.Int).Exp(g, a, p)
			k := new(big.Int).Exp(ga, b, p)
			zeros := 1 + tape.Choose(simrt.Cfg, 2)
			found := false
			for i := 0; i < 1<<14; i++ {
				if k.BitLen() <= 2048-8*zeros {
					found = true
					break
				}
				b.Add(b, big.NewInt(1))
				k.Mul(k, ga).Mod(k, p)
			}
			if found {
				simrt.Probe("C09.key-with-leading-zero-bytes")
				give := func(v *big.Int) func(p []byte) bool {
					return func(p []byte) bool {
						if len(p) != 257 {
							return false
						}
						p[0] = 0
						v.FillBytes(p[1:])
						return true
					}
				}
				srvRnd.Override, cliRnd.Override = give(a), give(b)
			}
		}
		timeout := time.Minute
		ce, se := newPipe()
		ce.latency, se.latency = latencyOf(tape), latencyOf(tape)
		ctx, cancel := context.WithCancel(context.Background())
		defer cancel()
		type srvResult struct {
			res tdx.ServerExchangeResult
			err error
		}
		sch := make(chan srvResult, 1)
		simrt.Go("server-exchange", func() {
			r, err := tdx.NewExchanger(se, dc).WithClock(clk).WithRand(srvRnd).WithTimeout(timeout).Server(tdx.PrivateKey{RSA: keyTrusted}).Run(ctx)
			simrt.Ev("server-exchange-return", "err=%v", err)
			if err != nil {
				se.Close() // a failed server drops the connection
				ce.Close()
			}
			simrt.Send(0, sch, srvResult{r, err})
		})
		keys := []tdx.PublicKey{pub(keyTrusted2), pub(keyTrusted)}
		if tape.Coin(simrt.Cfg, 1, 2) {
			keys = []tdx.PublicKey{pub(keyTrusted)}
		}
		cch := startClient(ctx, ce, clk, cliRnd, dc, temp, expires, timeout, keys)
		c, _ := simrt.Recv(0, cch)
		if c.err != nil {
			ce.Close()
			se.Close()
		}
		sv, _ := simrt.Recv(0, sch)
		ce.Close()
		se.Close()
		if c.err == nil {
			checkClientKey("C09", c.res)
			if sv.err != nil {
				viol("C09.client-only", "client-only", "the client finished the exchange but the honest server failed: %v", sv.err)
			} else {
				if c.res.AuthKey.Value != sv.res.Key.Value {
					viol("C09.key-mismatch", "key-mismatch", "client and server finished with different auth keys (client %x..., server %x...)", c.res.AuthKey.Value[:8], sv.res.Key.Value[:8])
				}
				if c.res.AuthKey.ID != sv.res.Key.ID {
					viol("C09.key-id-mismatch", "key-id-mismatch", "client key id %x, server key id %x", c.res.AuthKey.ID, sv.res.Key.ID)
				}
				if c.res.ServerSalt != sv.res.ServerSalt {
					viol("C09.salt-mismatch", "salt-mismatch", "client salt %d, server salt %d", c.res.ServerSalt, sv.res.ServerSalt)
				}
			}
			if temp {
				if want := clk.Now().Unix() + int64(expires); c.res.ExpiresAt != want {
					viol("C09.expires", "expires", "temporary key expiry %d, expected now+expires_in = %d", c.res.ExpiresAt, want)
				}
			} else if c.res.ExpiresAt != 0 {
				viol("C09.expires", "expires-permanent", "permanent key returned with expiry %d", c.res.ExpiresAt)
			}
		} else if !faults {
			viol("C09.honest-failed", "honest-failed", "exchange with the honest in-tree server and sound entropy failed on the client: %v (server: %v)", c.err, sv.err)
		}
	})
}

// ---- C10 ------------------------------------------------------------------------------------

// deviation draws one entry of the adversary library. equivalent deviations
// (another safe prime, another acceptable generator) must not break the
// exchange; every other one must.
func deviation(tape *simrt.Tape) (k knobs, mustFail bool) {
	mustFail = true
	switch tape.Choose(simrt.Fault, 24) {
	case 0:
		return knobs{}, false
	case 1:
		return knobs{prime: "safe2048b", g: 2 + tape.Choose(simrt.Fault, 6)}, false
	case 2:
		return knobs{g: simrt.Pick(tape, simrt.Fault, 3, 4, 7)}, false
	case 3:
		k.noPrivKey = true
	case 4:
		k.advertise = []int64{crypto.RSAFingerprint(&keyAdversary.PublicKey)}
	case 5:
		k.resNonce = true
	case 6:
		k.dhNonce = true
	case 7:
		k.dhSrvNonce = true
	case 8:
		k.answerMut = 1 + tape.Choose(simrt.Fault, 4)
	case 9:
		k.inNonce = true
	case 10:
		k.inSrvNonce = true
	case 11:
		k.prime = simrt.Pick(tape, simrt.Fault, "safe2047", "safe1024", "prime2048", "composite", "even")
		k.g = 4 // acceptable for every prime, so that the modulus itself decides
	case 12:
		k.g = simrt.Pick(tape, simrt.Fault, 0, 1, 2, 5, 6, 8, 9, -1, 1<<30)
		if k.g == 0 {
			k.g = -3
		}
	case 13, 14:
		k.gaKind = 1 + tape.Choose(simrt.Fault, 11)
	case 15:
		k.dhFail = true
	case 16:
		k.genNonce = true
	case 17:
		k.genSrvNonce = true
	case 18:
		k.genHash = 1 + tape.Choose(simrt.Fault, 3)
	case 19:
		k.genKind = 1 + tape.Choose(simrt.Fault, 2)
	case 20:
		k.replayStep = 2 + tape.Choose(simrt.Fault, 2)
	case 21:
		k.prime, k.g = "safe2048b", 2+tape.Choose(simrt.Fault, 6)
		k.gaKind = 1 + tape.Choose(simrt.Fault, 9)
	default:
		return knobs{}, false
	}
	return k, mustFail
}

func runC10(t *testing.T, tape *simrt.Tape, env dst.Env) *simrt.Outcome {
	mode := tape.Choose(simrt.Cfg, 3)
	return simrt.Run(t, tape, simrt.Options{Policy: -1}, func(s *simrt.Sim) {
		viol := func(rule, sig, format string, args ...any) { simrt.Violate("C10", rule, sig, format, args...) }
		clk := &simClock{}
		dc := simrt.Pick(tape, simrt.Cfg, 1, 2, 4)
		temp := tape.Coin(simrt.Cfg, 1, 3)
		timeout := 30 * time.Second
		ctx, cancel := context.WithCancel(context.Background())
		defer cancel()
		trusted := []tdx.PublicKey{pub(keyTrusted), pub(keyTrusted2)}
		switch mode {
		case 0, 1:
			// scripted peer with one deviation
			k, mustFail := deviation(tape)
			priv := keyTrusted
			if k.noPrivKey {
				// advertises a trusted fingerprint, holds another key
				k.advertise = []int64{crypto.RSAFingerprint(&keyTrusted.PublicKey)}
				priv = keyAdversary
			} else if k.advertise != nil {
				priv = keyAdversary
			}
			what := describe(k)
			if mustFail {
				simrt.FaultFired("deviation", "%s", what)
			}
			// a reconnecting client meets the same peer again: every attempt
			// stands on its own
			attempts := 1 + tape.Choose(simrt.Cfg, 3)/2
			for a := 0; a < attempts; a++ {
			ce, se := newPipe()
			sc := newScript(tape, se, clk, simrand.New(tape), priv, k)
			simrt.Go("scripted-peer", func() { sc.run(nil) })
			c, _ := simrt.Recv(0, startClient(ctx, ce, clk, simrand.New(tape), dc, temp, 3600, timeout, trusted))
			ce.Close()
			se.Close()
			switch {
			case mustFail && c.err == nil:
				viol("C10.completed", "completed "+what, "the key exchange completed although the peer deviated: %s", what)
			case !mustFail && c.err != nil:
				viol("C10.honest-failed", "honest-failed "+what, "the exchange with a well-behaved scripted peer (%s) failed: %v (script: %s)", orHonest(what), c.err, sc.failure)
			case !mustFail:
				checkClientKey("C10", c.res)
				if c.res.AuthKey.Value != sc.key || c.res.ServerSalt != sc.salt {
					viol("C10.key-mismatch", "key-mismatch "+what, "client and scripted peer (%s) derived different keys or salts", orHonest(what))
				}
			}
			}
		default:
			// man in the middle between the real client and the real in-tree server
			ce, mc := newPipe() // client <-> mitm
			ms, se := newPipe() // mitm <-> server
			simrt.Go("server-exchange", func() {
				_, err := tdx.NewExchanger(se, dc).WithClock(clk).WithRand(simrand.New(tape)).WithTimeout(timeout).Server(tdx.PrivateKey{RSA: keyTrusted}).Run(ctx)
				simrt.Ev("server-exchange-return", "err=%v", err)
			})
			// client -> server: unchanged
			simrt.Go("mitm-up", func() {
				for {
					f, ok := mc.recvRaw()
					if !ok {
						return
					}
					_ = ms.Send(context.Background(), &bin.Buffer{Buf: f})
				}
			})
			target := 1 + tape.Choose(simrt.Fault, 3) // which server message is altered
			kind := tape.Choose(simrt.Fault, 4)
			tampered, what := false, ""
			var earlier [][]byte
			if kind == 3 {
				earlier = recordedExchange(tape, clk, dc)
			}
			simrt.Go("mitm-down", func() {
				n := 0
				for {
					f, ok := ms.recvRaw()
					if !ok {
						return
					}
					n++
					if n == target {
						g, how := tamperFrame(tape, f, n, kind, earlier)
						if how != "" {
							tampered, what = true, fmt.Sprintf("server message %d: %s", n, how)
							simrt.FaultFired("mitm", "%s", what)
							f = g
						}
					}
					_ = mc.Send(context.Background(), &bin.Buffer{Buf: f})
				}
			})
			c, _ := simrt.Recv(0, startClient(ctx, ce, clk, simrand.New(tape), dc, temp, 3600, timeout, trusted))
			for _, e := range []*end{ce, mc, ms, se} {
				e.Close()
			}
			if tampered && c.err == nil {
				viol("C10.completed", "completed mitm "+what, "the key exchange completed although a man in the middle altered %s", what)
			}
			if !tampered && c.err != nil {
				viol("C10.honest-failed", "honest-failed mitm", "the exchange through a passive middle box failed: %v", c.err)
			}
		}
	})
}

func orHonest(s string) string {
	if s == "" {
		return "honest"
	}
	return s
}

// recordedExchange runs one complete honest exchange and returns the
// server's three frames.
func recordedExchange(tape *simrt.Tape, clk *simClock, dc int) [][]byte {
	ce, se := newPipe()
	sc := newScript(tape, se, clk, simrand.New(tape), keyTrusted, knobs{})
	simrt.Go("scripted-peer-recorded", func() { sc.run(nil) })
	c, _ := simrt.Recv(0, startClient(context.Background(), ce, clk, simrand.New(tape), dc, false, 0, time.Minute, []tdx.PublicKey{pub(keyTrusted)}))
	ce.Close()
	se.Close()
	if c.err != nil || len(sc.frames) != 3 {
		panic(fmt.Sprintf("harness: recorded exchange failed: %v", c.err))
	}
	return sc.frames
}

// tamperFrame alters one server->client frame. The frame is auth_key_id(8)
// message_id(8) length(4) payload; only payload fields named by the statement
// are touched (TL alignment bytes and pq are left alone).
func tamperFrame(tape *simrt.Tape, f []byte, n, kind int, earlier [][]byte) ([]byte, string) {
	if kind == 3 {
		return append([]byte(nil), earlier[n-1]...), "replaced by the same message of an earlier exchange"
	}
	g := append([]byte(nil), f...)
	pay := g[20:]
	type span struct {
		from, to int
		name     string
	}
	var spans []span
	switch n {
	case 1: // resPQ: ctor nonce server_nonce pq(12) vector(ctor count fp...)
		spans = []span{{0, 4, "constructor"}, {4, 20, "nonce"}, {20, 36, "server_nonce"}, {56, len(pay), "fingerprint"}}
	case 2: // server_DH_params_ok: ctor nonce server_nonce bytes(4 + len)
		alen := int(pay[37]) | int(pay[38])<<8 | int(pay[39])<<16
		spans = []span{{0, 4, "constructor"}, {4, 20, "nonce"}, {20, 36, "server_nonce"}, {40, 40 + alen, "encrypted_answer"}}
		if pay[36] != 254 {
			panic("harness: unexpected short encrypted_answer")
		}
	default: // dh_gen_ok: ctor nonce server_nonce new_nonce_hash1
		spans = []span{{0, 4, "constructor"}, {4, 20, "nonce"}, {20, 36, "server_nonce"}, {36, 52, "new_nonce_hash1"}}
	}
	sp := spans[tape.Choose(simrt.Fault, len(spans))]
	switch kind {
	case 0:
		i := sp.from + tape.Choose(simrt.Fault, sp.to-sp.from)
		pay[i] ^= 1 << tape.Choose(simrt.Fault, 8)
		return g, "bit flip in " + sp.name
	case 1:
		junk := make([]byte, sp.to-sp.from)
		tape.Fill(simrt.Fault, junk)
		if bytes.Equal(junk, pay[sp.from:sp.to]) {
			junk[0] ^= 1
		}
		copy(pay[sp.from:sp.to], junk)
		return g, sp.name + " replaced by random bytes"
	default:
		// whole frame cut short
		cut := 1 + tape.Choose(simrt.Fault, len(pay)-4)
		return g[:len(g)-cut], fmt.Sprintf("truncated by %d bytes", cut)
	}
}

// ---- C12 ------------------------------------------------------------------------------------

func runC12(t *testing.T, tape *simrt.Tape, env dst.Env) *simrt.Outcome {
	level := tape.Choose(simrt.Cfg, 4) // 0 bare exchange, 1 connect, 2 connect with PFS, 3 key regeneration
	return simrt.Run(t, tape, simrt.Options{Policy: -1}, func(s *simrt.Sim) {
		viol := func(rule, sig, format string, args ...any) { simrt.Violate("C12", rule, sig, format, args...) }
		// the exchange clock may be a calibrated one (clock/ntp): ahead of or
		// behind the time the timeouts run on
		clk := &simClock{off: simrt.Pick(tape, simrt.Clock, 0, 0, 2*time.Hour, -2*time.Hour, 40*time.Second)}
		timeout := time.Duration(1+tape.Choose(simrt.Cfg, 5)) * 2 * time.Second
		silentAt := 1 + tape.Choose(simrt.Fault, 3)
		// the caller's own deadline: none, or one far behind the exchange timeout
		var callerDeadline time.Duration
		if tape.Coin(simrt.Cfg, 1, 3) {
			callerDeadline = timeout * time.Duration(5+tape.Choose(simrt.Cfg, 5))
		}
		base := context.Background()
		ctx, cancel := context.WithCancel(base)
		if callerDeadline > 0 {
			ctx, cancel = context.WithTimeout(base, callerDeadline)
		}
		defer cancel()
		ce, se := newPipe()
		ce.latency, se.latency = latencyOf(tape), latencyOf(tape)
		maxLat := 4 * time.Second // upper bound of latencyOf
		var silent *script          // the exchange in which the peer goes silent
		var returned time.Duration = -1
		var retErr error
		what := ""
		simrt.FaultFired("silent-peer", "step %d", silentAt)
		switch level {
		case 0:
			what = "bare client exchange"
			silent = newScript(tape, se, clk, simrand.New(tape), keyTrusted, knobs{silentAt: silentAt})
			simrt.Go("scripted-peer", func() { silent.run(nil) })
			cch := startClient(ctx, ce, clk, simrand.New(tape), 2, tape.Coin(simrt.Cfg, 1, 2), 3600, timeout, []tdx.PublicKey{pub(keyTrusted)})
			if i, rv, _ := simrt.Select(0, false, simrt.SelRecv(cch), simrt.SelRecv(time.After(400*timeout+time.Hour))); i == 0 {
				c := simrt.RecvVal(cch, rv)
				returned, retErr = simrt.Now(), c.err
			}
		default:
			opts := mtproto.Options{
				DC: 2, PublicKeys: []tdx.PublicKey{pub(keyTrusted)}, Clock: clk, Random: simrand.New(tape),
				DialTimeout: timeout * 20, ExchangeTimeout: timeout,
				PingInterval: time.Hour, PingTimeout: time.Hour, SaltFetchInterval: time.Hour, AckInterval: time.Hour, RetryInterval: time.Hour, MaxRetries: 1,
			}
			which := 1 // which exchange of the connection the peer stalls in
			switch level {
			case 1:
				what = "connect (no PFS)"
			case 2:
				what = "connect with PFS"
				opts.EnablePFS = true
				which = 1 + tape.Choose(simrt.Fault, 2)
				what += fmt.Sprintf(", exchange %d", which)
			case 3:
				what = "key regeneration after auth key not found"
				var k crypto.Key
				tape.Fill(simrt.Wl, k[:])
				opts.Key, opts.Salt = k.WithID(), 1
			}
			simrt.Go("scripted-peer", func() {
				var first []byte
				if level == 3 {
					// the client speaks with its key; the server does not know it
					f, ok := se.recvRaw()
					if !ok {
						return
					}
					_ = f
					simrt.Ev("server", "auth key not found")
					_ = se.Send(context.Background(), &bin.Buffer{Buf: []byte{0x6c, 0xfe, 0xff, 0xff}}) // -404
				}
				for n := 1; ; n++ {
					k := knobs{}
					if n == which {
						k.silentAt = silentAt
					}
					sc := newScript(tape, se, clk, simrand.New(tape), keyTrusted, k)
					if n == which {
						silent = sc
					}
					enc := sc.run(first)
					first = nil
					if !sc.done || enc != nil {
						return
					}
				}
			})
			conn := mtproto.New(func(ctx context.Context) (transport.Conn, error) { return ce, nil }, opts)
			done := make(chan error, 1)
			simrt.Go("conn.Run", func() {
				err := conn.Run(ctx, func(ctx context.Context) error {
					if level == 3 {
						// something to send, so that the server can answer -404
						cctx, cc := context.WithTimeout(ctx, time.Hour)
						defer cc()
						_ = conn.Ping(cctx)
					}
					simrt.Recv(0, ctx.Done())
					return ctx.Err()
				})
				returned, retErr = simrt.Now(), err
				simrt.Ev("conn-run-return", "err=%v", err)
				simrt.Send(0, done, err)
			})
			// the run may legitimately never end only if the property fails:
			// bound the wait by far more than any allowed time
			simrt.Select(0, false, simrt.SelRecv(done), simrt.SelRecv(time.After(400*timeout+time.Hour)))
		}
		ce.Close()
		se.Close()
		if silent == nil || silent.stepAt[silentAt] < 0 {
			if returned >= 0 && retErr == nil {
				viol("C12.completed", "completed", "%s completed although the peer never answered step %d", what, silentAt)
			}
			// the exchange did not get as far as the silent step (it failed
			// earlier for its own reasons): nothing to check
			simrt.Probe("C12.silent-step-not-reached")
			return
		}
		started := silent.stepAt[silentAt] // the request reached the peer; it was written at most maxLat earlier
		limit := started + timeout + time.Millisecond
		_ = maxLat
		switch {
		case returned < 0:
			viol("C12.unbounded", fmt.Sprintf("unbounded %s step %d", levelName(level), silentAt), "%s: the peer went silent at step %d (request received at %v, exchange timeout %v, caller deadline %v) and the call had not returned %v later", what, silentAt, started, timeout, orNone(callerDeadline), simrt.Now()-started)
		case retErr == nil:
			viol("C12.completed", "completed", "%s completed although the peer never answered step %d", what, silentAt)
		case returned > limit:
			viol("C12.late", fmt.Sprintf("late %s step %d", levelName(level), silentAt), "%s: the peer went silent at step %d (request received at %v); the call failed only at %v, %v after the step started (exchange timeout %v, caller deadline %v): %v", what, silentAt, started, returned, returned-started, timeout, orNone(callerDeadline), retErr)
		}
	})
}

func levelName(l int) string {
	return [...]string{"exchange", "connect", "connect-pfs", "regenerate"}[l]
}

func orNone(d time.Duration) string {
	if d == 0 {
		return "none"
	}
	return d.String()
}
