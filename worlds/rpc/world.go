// Package rpc is world W4: the real rpc.Engine driven by caller, server-script,
// noise-notifier, canceller and closer tasks. Decides C24, C25, C26.
package rpc

import (
	"bytes"
	"context"
	"errors"
	"fmt"
	"testing"
	"time"

	"github.com/gotd/td/bin"
	"github.com/gotd/td/pool"
	tdrpc "github.com/gotd/td/rpc"
	"github.com/gotd/td/telegram"

	"verif/dst"
	"verif/simrt"
)

var World = dst.World{
	Name:  "rpc",
	Props: []string{"C24", "C25", "C26"},
	Run:   run,
	Real:  []string{"rpc.Engine (Do, retryUntilAck, NotifyResult, NotifyError, NotifyAcks, Close, ForceClose)", "clock.System timers on the bubble clock", "pool/telegram retry predicates"},
	Stub:  []string{"send function (latency, errors)", "drop handler", "server script, noise notifier, canceller, closer", "recording decoder"},
}

type sendRec struct {
	beginSeq, endSeq uint64
	beginT, endT     time.Duration
	seqNo            int32
	body             []byte
	err              error
	done             bool
}

type mark struct {
	seq uint64
	t   time.Duration
}

type writeRec struct {
	beginSeq, endSeq uint64
	ended            bool
	val              int64
}

type callRec struct {
	id        int64
	seqNo     int32
	nonce     int64
	started   bool
	startSeq  uint64
	startT    time.Duration
	sends     []*sendRec
	ackBegin  []mark
	ackDone   []mark
	resBegin  []mark // results and errors addressed to this id: notification began
	resDone   []mark
	rpcErrs   []error
	malformed bool
	writes    []*writeRec
	returned  bool
	ret       mark
	retErr    error
	cancelled bool
	cancelAt  mark
	ctxDone   bool // own context had ended when Do returned
	deadline  time.Duration
	hasDL     bool
	drops     []mark
	ctx       context.Context
}

type world struct {
	calls    map[int64]*callRec
	order    []*callRec
	interval time.Duration
	limit    int
	maxLat   time.Duration
	closeBeg mark
	closeEnd mark
	closing  bool
	closed   bool
	errSend  error
}

func now() mark { return mark{simrt.Seq(), simrt.Now()} }

type input struct{ id, nonce int64 }

func (i input) Encode(b *bin.Buffer) error { b.PutLong(i.id); b.PutLong(i.nonce); return nil }

type output struct {
	w *world
	c *callRec
}

func (o output) Decode(b *bin.Buffer) error {
	v, err := b.Long()
	if err != nil {
		return err
	}
	wr := &writeRec{val: v}
	wr.beginSeq = simrt.Ev("write-begin", "call=%d val=%d", o.c.id, v)
	o.c.writes = append(o.c.writes, wr)
	simrt.Yield(0)
	wr.endSeq = simrt.Ev("write-end", "call=%d", o.c.id)
	wr.ended = true
	return nil
}

type rpcError struct{ id int64 }

func (e *rpcError) Error() string { return fmt.Sprintf("rpc error for %d", e.id) }

var grid = []time.Duration{0, 0, 100 * time.Millisecond, 300 * time.Millisecond}

func run(t *testing.T, tape *simrt.Tape, env dst.Env) *simrt.Outcome {
	w := &world{calls: map[int64]*callRec{}, errSend: errors.New("injected send failure")}
	out := simrt.Run(t, tape, simrt.Options{Policy: -1}, func(s *simrt.Sim) { w.main(s, tape, env) })
	w.judge(out)
	return out
}

func (w *world) main(s *simrt.Sim, tape *simrt.Tape, env dst.Env) {
	nCallers := tape.Range(simrt.Cfg, 1, 4)
	w.interval = simrt.Pick(tape, simrt.Cfg, time.Second, 2*time.Second, 500*time.Millisecond)
	w.limit = tape.Range(simrt.Cfg, 1, 4)
	faulty := tape.Coin(simrt.Cfg, 3, 4)
	latOn := tape.Coin(simrt.Cfg, 1, 2)
	w.maxLat = 300 * time.Millisecond
	if faulty {
		simrt.Probe("cfg:faults-on")
	} else {
		simrt.Probe("cfg:fault-free")
	}

	var e *tdrpc.Engine
	send := func(ctx context.Context, msgID int64, seqNo int32, in bin.Encoder) error {
		c := w.calls[msgID]
		var b bin.Buffer
		_ = in.Encode(&b)
		sr := &sendRec{seqNo: seqNo, body: append([]byte(nil), b.Buf...)}
		sr.beginSeq, sr.beginT = simrt.Ev("send", "id=%d n=%d", msgID, len(c.sends)+1), simrt.Now()
		c.sends = append(c.sends, sr)
		var err error
		if latOn {
			if d := grid[tape.Choose(simrt.Net, len(grid))]; d > 0 {
				tm := time.NewTimer(d)
				i, _, _ := simrt.Select(0, false, simrt.SelRecv(ctx.Done()), simrt.SelRecv(tm.C))
				tm.Stop()
				if i == 0 {
					err = ctx.Err()
				}
			}
		}
		if err == nil && faulty && tape.Coin(simrt.Fault, 1, 12) {
			simrt.FaultFired("send-error", "id=%d", msgID)
			err = w.errSend
		}
		sr.err, sr.done = err, true
		sr.endSeq, sr.endT = simrt.Ev("send-done", "id=%d err=%v", msgID, err), simrt.Now()
		if err == nil {
			// server script for this transmission
			w.serverScript(tape, e, c, faulty)
		}
		return err
	}
	drop := func(req tdrpc.Request) error {
		c := w.calls[req.MsgID]
		simrt.Ev("drop", "id=%d", req.MsgID)
		c.drops = append(c.drops, now())
		return nil
	}
	e = tdrpc.New(send, tdrpc.Options{RetryInterval: w.interval, MaxRetries: w.limit, DropHandler: drop})

	done := make(chan struct{}, 16)
	nCalls := 0
	for ci := 0; ci < nCallers; ci++ {
		k := tape.Range(simrt.Wl, 1, 2)
		ids := make([]int64, k)
		for j := range ids {
			ids[j] = int64((ci+1)*10 + j + 1)
			c := &callRec{id: ids[j], seqNo: int32(ids[j]*2 + 1), nonce: int64(tape.Choose(simrt.Wl, 1000))}
			w.calls[c.id] = c
			w.order = append(w.order, c)
		}
		nCalls++
		startDelay := grid[tape.Choose(simrt.Wl, len(grid))]
		// context kind per call
		kinds := make([]int, k)
		for j := range kinds {
			kinds[j] = tape.Choose(simrt.Wl, 4) // 0,1: background 2: cancellable 3: timeout
		}
		simrt.Go(fmt.Sprintf("caller%d", ci), func() {
			defer func() { simrt.Send(0, done, struct{}{}) }()
			simrt.Sleep(0, startDelay)
			for j, id := range ids {
				c := w.calls[id]
				ctx := context.Background()
				var cancel context.CancelFunc = func() {}
				switch kinds[j] {
				case 2:
					ctx, cancel = context.WithCancel(ctx)
					d := time.Duration(tape.Choose(simrt.Wl, 8)) * 250 * time.Millisecond
					cc := cancel
					simrt.Go("canceller", func() {
						simrt.Sleep(0, d)
						if !c.returned {
							c.cancelled, c.cancelAt = true, now()
							simrt.FaultFired("cancel", "id=%d", id)
						}
						cc()
					})
				case 3:
					d := time.Duration(1+tape.Choose(simrt.Wl, 6)) * 500 * time.Millisecond
					ctx, cancel = context.WithTimeout(ctx, d)
					c.deadline, c.hasDL = simrt.Now()+d, true
				}
				c.ctx = ctx
				c.started = true
				c.startSeq, c.startT = simrt.Ev("do", "id=%d ctxkind=%d", id, kinds[j]), simrt.Now()
				err := e.Do(ctx, tdrpc.Request{MsgID: c.id, SeqNo: c.seqNo, Input: input{c.id, c.nonce}, Output: output{w, c}})
				c.retErr, c.returned = err, true
				c.ret = mark{simrt.Ev("return", "id=%d err=%v", id, err), simrt.Now()}
				c.ctxDone = ctx.Err() != nil
				cancel()
			}
		})
	}

	if faulty {
		simrt.Go("noise", func() {
			n := tape.Range(simrt.Wl, 0, 6)
			for j := 0; j < n; j++ {
				simrt.Sleep(0, time.Duration(tape.Choose(simrt.Wl, 5))*250*time.Millisecond)
				c := w.order[tape.Choose(simrt.Wl, len(w.order))]
				switch tape.Choose(simrt.Wl, 6) {
				case 0:
					w.ack(e, c, "noise")
				case 1:
					w.result(e, c, "noise")
				case 2:
					simrt.FaultFired("result-unknown-id", "")
					var b bin.Buffer
					b.PutLong(999_000)
					_ = e.NotifyResult(999, &b)
				case 3:
					w.rpcError(e, c)
				case 4:
					w.result(e, c, "dup")
					w.result(e, c, "dup")
				case 5:
					simrt.FaultFired("ack-unknown-id", "")
					e.NotifyAcks([]int64{998, 997})
				}
			}
		})
	}

	closeMode := tape.Choose(simrt.Wl, 4) // 0: none until end, 1: ForceClose at grid time, 2: Close then ForceClose, 3: none
	closeAt := time.Duration(tape.Choose(simrt.Wl, 12)) * 250 * time.Millisecond
	simrt.Go("closer", func() {
		switch closeMode {
		case 1:
			simrt.Sleep(0, closeAt)
			w.forceClose(e)
		case 2:
			simrt.Sleep(0, closeAt)
			simrt.Go("graceful-close", func() {
				simrt.Ev("close-begin", "")
				e.Close()
				simrt.Ev("close-end", "")
			})
		}
	})

	// every run ends with a ForceClose at a time by which every un-acked call
	// has exhausted its retries; afterwards nobody may be stranded.
	endAt := time.Duration(w.limit+3)*w.interval + 5*time.Second
	simrt.Go("final-close", func() {
		simrt.Sleep(0, endAt)
		if !w.closing {
			w.forceClose(e)
		}
	})
	for i := 0; i < nCalls; i++ {
		simrt.Recv(0, done)
	}
	// a call issued after the engine was closed
	if w.closed {
		c := &callRec{id: 777, seqNo: 1555}
		w.calls[c.id] = c
		w.order = append(w.order, c)
		c.started = true
		c.startSeq, c.startT = simrt.Ev("do", "id=%d after close", c.id), simrt.Now()
		c.ctx = context.Background()
		err := e.Do(c.ctx, tdrpc.Request{MsgID: c.id, SeqNo: c.seqNo, Input: input{c.id, 0}, Output: output{w, c}})
		c.retErr, c.returned = err, true
		c.ret = mark{simrt.Ev("return", "id=%d err=%v", c.id, err), simrt.Now()}
	}
}

func (w *world) forceClose(e *tdrpc.Engine) {
	if w.closing {
		return
	}
	w.closing = true
	w.closeBeg = mark{simrt.Ev("forceclose-begin", ""), simrt.Now()}
	e.ForceClose()
	w.closeEnd = mark{simrt.Ev("forceclose-end", ""), simrt.Now()}
	w.closed = true
}

// ack delivers a msgs_ack batch that contains c's id, possibly surrounded by
// ids of unknown or other requests (as a server's batched acknowledgement is).
func (w *world) ack(e *tdrpc.Engine, c *callRec, why string) {
	tape := simrt.S.Tape
	var ids []int64
	var recs []*callRec
	add := func(pos int) {
		for k := tape.Choose(simrt.Net, 3); k > 0; k-- {
			if tape.Coin(simrt.Net, 1, 2) {
				ids = append(ids, int64(900+pos*10+k)) // nobody waits for this one
				continue
			}
			o := w.order[tape.Choose(simrt.Net, len(w.order))]
			if o != c {
				ids = append(ids, o.id)
				recs = append(recs, o)
			}
		}
	}
	add(0)
	ids = append(ids, c.id)
	recs = append(recs, c)
	add(1)
	seq, t := simrt.Ev("ack-begin", "id=%d batch=%v %s", c.id, ids, why), simrt.Now()
	for _, r := range recs {
		r.ackBegin = append(r.ackBegin, mark{seq, t})
	}
	e.NotifyAcks(ids)
	seq, t = simrt.Ev("ack-done", "id=%d", c.id), simrt.Now()
	for _, r := range recs {
		r.ackDone = append(r.ackDone, mark{seq, t})
	}
}

func (w *world) result(e *tdrpc.Engine, c *callRec, why string) {
	var b bin.Buffer
	b.PutLong(c.id*1000 + c.nonce)
	c.resBegin = append(c.resBegin, mark{simrt.Ev("result-begin", "id=%d %s", c.id, why), simrt.Now()})
	_ = e.NotifyResult(c.id, &b)
	c.resDone = append(c.resDone, mark{simrt.Ev("result-done", "id=%d", c.id), simrt.Now()})
}

func (w *world) rpcError(e *tdrpc.Engine, c *callRec) {
	re := &rpcError{c.id}
	c.rpcErrs = append(c.rpcErrs, re)
	c.resBegin = append(c.resBegin, mark{simrt.Ev("error-begin", "id=%d", c.id), simrt.Now()})
	e.NotifyError(c.id, re)
	c.resDone = append(c.resDone, mark{simrt.Ev("error-done", "id=%d", c.id), simrt.Now()})
}

// serverScript reacts to one successful transmission like a server would.
func (w *world) serverScript(tape *simrt.Tape, e *tdrpc.Engine, c *callRec, faulty bool) {
	plan := tape.Choose(simrt.Net, 8)
	d1 := grid[tape.Choose(simrt.Net, len(grid))]
	d2 := grid[tape.Choose(simrt.Net, len(grid))]
	if !faulty && plan >= 4 {
		plan %= 2
	}
	simrt.Go(fmt.Sprintf("server-%d", c.id), func() {
		simrt.Sleep(0, d1)
		switch plan {
		case 0: // ack then result
			w.ack(e, c, "script")
			simrt.Sleep(0, d2)
			w.result(e, c, "script")
		case 1: // result only
			w.result(e, c, "script")
		case 2: // ack only (result never comes)
			w.ack(e, c, "script")
		case 3: // ack then rpc error
			w.ack(e, c, "script")
			simrt.Sleep(0, d2)
			w.rpcError(e, c)
		case 4: // silence: lost
			simrt.FaultFired("lost-request", "id=%d", c.id)
		case 5: // malformed result (decode must fail, nothing written)
			simrt.FaultFired("malformed-result", "id=%d", c.id)
			c.malformed = true
			c.resBegin = append(c.resBegin, mark{simrt.Ev("result-begin", "id=%d malformed", c.id), simrt.Now()})
			_ = e.NotifyResult(c.id, &bin.Buffer{Buf: []byte{1, 2}})
			c.resDone = append(c.resDone, mark{simrt.Ev("result-done", "id=%d", c.id), simrt.Now()})
		case 6: // result, then duplicate result
			w.result(e, c, "script")
			simrt.Sleep(0, d2)
			simrt.FaultFired("dup-result", "id=%d", c.id)
			w.result(e, c, "dup")
		case 7: // ack lost, result late
			simrt.FaultFired("lost-ack", "id=%d", c.id)
			simrt.Sleep(0, d2+w.interval)
			w.result(e, c, "late")
		}
	})
}

// ---- oracles -----------------------------------------------------------------

func isCtxErr(err error) bool {
	return errors.Is(err, context.Canceled) || errors.Is(err, context.DeadlineExceeded)
}

func retryable(err error) (poolSays, telegramSays bool) {
	return pool.VerifRetryableOnNewConn(err), telegram.VerifRetryableOnNewConn(err)
}

// after keeps the marks made after event seq (notifications that arrived
// before the request was first transmitted cannot concern it).
func after(ms []mark, seq uint64) []mark {
	var out []mark
	for _, m := range ms {
		if m.seq > seq {
			out = append(out, m)
		}
	}
	return out
}

// sure returns the completion marks of notifications that certainly found the
// call registered: they began after event seq (the first transmission, which
// the engine performs after registering the ack and result callbacks).
func sure(begin, done []mark, seq uint64) []mark {
	var out []mark
	for i, b := range begin {
		if b.seq > seq && i < len(done) {
			out = append(out, done[i])
		}
	}
	return out
}

// maybe returns the begin marks of notifications that may have taken effect on
// a call started at event seq: they had not completed before it started.
func maybe(begin, done []mark, seq uint64) []mark {
	var out []mark
	for i, b := range begin {
		if i >= len(done) || done[i].seq > seq {
			out = append(out, b)
		}
	}
	return out
}

func firstBefore(ms []mark, seq uint64) bool {
	for _, m := range ms {
		if m.seq < seq {
			return true
		}
	}
	return false
}

func (w *world) judge(o *simrt.Outcome) {
	if o.HarnessErr != "" {
		return
	}
	if o.Panic != "" {
		if !o.PanicInRepo() {
			o.HarnessErr = "panic in world rpc task " + o.PanicTask + ": " + o.Panic
			return
		}
		// the engine itself panicked while completing/cancelling a call
		o.AddViolation("C24", "C24.engine-panic", "engine-panic", "rpc engine panicked in task %s: %s", o.PanicTask, o.PanicLine())
	}
	for _, c := range w.order {
		w.judgeC24(o, c)
		w.judgeC25(o, c)
		w.judgeC26(o, c)
	}
	if w.closing && !w.closed {
		// ForceClose never returned
		pending := 0
		for _, c := range w.order {
			if c.started && !c.returned {
				pending++
			}
		}
		o.AddViolation("C26", "C26.forceclose-stuck", "forceclose-stuck", "ForceClose did not return (stuck=%v, pending calls=%d, tasks=%v)", o.Stuck, pending, o.StuckTasks)
	}
}

func (w *world) judgeC24(o *simrt.Outcome, c *callRec) {
	if !c.started {
		return
	}
	if len(c.writes) > 1 {
		o.AddViolation("C24", "C24.multi-write", "multi-write", "call %d: output written %d times", c.id, len(c.writes))
	}
	for _, wr := range c.writes {
		if wr.val/1000 != c.id {
			o.AddViolation("C24", "C24.foreign-write", "foreign-write", "call %d: output received value %d addressed to %d", c.id, wr.val, wr.val/1000)
		}
		if c.returned && (!wr.ended || wr.endSeq > c.ret.seq) {
			rule := "write-after-return"
			if wr.beginSeq < c.ret.seq {
				rule = "write-spans-return"
			}
			o.AddViolation("C24", "C24.write-after-return", rule, "call %d: output write (#%d..#%d ended=%v) not finished before Do returned (#%d)", c.id, wr.beginSeq, wr.endSeq, wr.ended, c.ret.seq)
		}
	}
	if !c.returned {
		return
	}
	if c.retErr == nil {
		if len(c.writes) == 0 {
			o.AddViolation("C24", "C24.nil-without-result", "nil-without-result", "call %d returned nil but its output was never written", c.id)
		}
		return
	}
	err := c.retErr
	ok := false
	var re *rpcError
	switch {
	case errors.As(err, &re):
		ok = re.id == c.id
		if ok {
			found := false
			for _, x := range c.rpcErrs {
				if x == re {
					found = true
				}
			}
			ok = found
		}
	case isCtxErr(err):
		// own context ended, or the engine was force-closed (wraps context.Canceled)
		ok = c.ctxDone || w.closing
	case errors.Is(err, tdrpc.ErrEngineClosed):
		ok = w.closing
	case errors.Is(err, &tdrpc.RetryLimitReachedErr{}):
		ok = true // C25 checks the count
	case errors.Is(err, w.errSend):
		ok = false
		for _, sr := range c.sends {
			if sr.err == w.errSend {
				ok = true
			}
		}
	default:
		// decode error of a malformed result addressed to this call
		ok = c.malformed
	}
	if !ok {
		o.AddViolation("C24", "C24.wrong-return", "wrong-return", "call %d returned %v, which is neither its result, its RPC error nor a legitimate cancel/close/retry/send error", c.id, err)
	}
}

func (w *world) judgeC25(o *simrt.Outcome, c *callRec) {
	if len(c.sends) == 0 {
		return
	}
	s0 := c.sends[0]
	for i, sr := range c.sends {
		if sr.seqNo != s0.seqNo || !bytes.Equal(sr.body, s0.body) {
			o.AddViolation("C25", "C25.identity", "identity", "call %d: transmission %d differs from the first (seqno %d vs %d, body %x vs %x)", c.id, i+1, sr.seqNo, s0.seqNo, sr.body, s0.body)
		}
		if i > 0 {
			prev := c.sends[i-1]
			if sr.beginT < prev.beginT+w.interval {
				o.AddViolation("C25", "C25.too-early", "too-early", "call %d: retransmission %d at %v, less than one retry interval %v after the previous at %v", c.id, i+1, sr.beginT, w.interval, prev.beginT)
			}
		}
		// never sent again once an ack/result was received: compare in
		// simulated time (same-instant races between the retry timer and the
		// notification are inherent and tolerated).
		for _, m := range sure(c.ackBegin, c.ackDone, s0.beginSeq) {
			if sr.beginT > m.t {
				o.AddViolation("C25", "C25.send-after-ack", "send-after-ack", "call %d: transmission %d at %v after its ack was delivered at %v", c.id, i+1, sr.beginT, m.t)
			}
		}
		for _, m := range sure(c.resBegin, c.resDone, s0.beginSeq) {
			if sr.beginT > m.t {
				o.AddViolation("C25", "C25.send-after-result", "send-after-result", "call %d: transmission %d at %v after its result/error was delivered at %v", c.id, i+1, sr.beginT, m.t)
			}
		}
	}
	if len(c.sends) > 1+w.limit {
		o.AddViolation("C25", "C25.over-limit", "over-limit", "call %d: %d transmissions, limit is 1+%d", c.id, len(c.sends), w.limit)
	}
	// liveness of the retry loop: for each transmission k that is not the
	// last allowed one, if nothing ended the wait by prev+interval, the next
	// one must have begun by max(prev+interval, end of prev)+1ms.
	stopT := time.Duration(1 << 62)
	upd := func(t time.Duration) {
		if t < stopT {
			stopT = t
		}
	}
	for _, m := range maybe(c.ackBegin, c.ackDone, c.startSeq) {
		upd(m.t)
	}
	for _, m := range maybe(c.resBegin, c.resDone, c.startSeq) {
		upd(m.t)
	}
	if c.cancelled {
		upd(c.cancelAt.t)
	}
	if c.hasDL {
		upd(c.deadline)
	}
	if w.closing {
		upd(w.closeBeg.t)
	}
	for i, sr := range c.sends {
		if !sr.done || sr.err != nil {
			break
		}
		due := sr.endT + w.interval
		if due >= stopT {
			break // something legitimately ended (or raced with) the wait
		}
		if i+1 >= 1+w.limit {
			// that was the last allowed transmission: the call must fail with the retry-limit error
			if c.returned && !errors.Is(c.retErr, &tdrpc.RetryLimitReachedErr{}) && sr.endT < stopT {
				o.AddViolation("C25", "C25.limit-error", "limit-error", "call %d: %d un-acked transmissions (limit %d) but Do returned %v", c.id, len(c.sends), w.limit, c.retErr)
			}
			break
		}
		if i+1 >= len(c.sends) {
			if o.SimTime > due+time.Millisecond && (!c.returned || c.ret.t > due+time.Millisecond) {
				o.AddViolation("C25", "C25.missing-retry", "missing-retry", "call %d: transmission %d at %v was neither acked nor answered nor cancelled, yet no retransmission followed by %v (returned=%v err=%v)", c.id, i+1, sr.beginT, due, c.returned, c.retErr)
			}
			break
		}
		if nx := c.sends[i+1]; nx.beginT > due+time.Millisecond {
			o.AddViolation("C25", "C25.late-retry", "late-retry", "call %d: retransmission %d at %v, due by %v", c.id, i+2, nx.beginT, due)
		}
	}
	if c.returned && errors.Is(c.retErr, &tdrpc.RetryLimitReachedErr{}) && len(c.sends) != 1+w.limit {
		o.AddViolation("C25", "C25.limit-count", "limit-count", "call %d failed with the retry-limit error after %d transmissions, expected 1+%d", c.id, len(c.sends), w.limit)
	}
}

func (w *world) judgeC26(o *simrt.Outcome, c *callRec) {
	if !c.started {
		return
	}
	// drop requests
	okSends := 0
	for _, sr := range c.sends {
		if sr.done && sr.err == nil && (!c.returned || sr.endSeq < c.ret.seq) {
			okSends++
		}
	}
	if c.returned {
		ownCancel := c.retErr != nil && isCtxErr(c.retErr) && c.ctxDone && !errors.Is(c.retErr, tdrpc.ErrEngineClosed)
		closeRace := w.closing && w.closeBeg.seq < c.ret.seq
		switch {
		case ownCancel && !closeRace:
			want := 0
			if okSends >= 1 {
				want = 1
			}
			if len(c.drops) != want {
				o.AddViolation("C26", "C26.drop-count", fmt.Sprintf("drop-count cancelled sent=%v drops=%d", okSends >= 1, len(c.drops)),
					"call %d returned %v after its own context ended with %d successful transmissions, but %d drop requests were sent (want %d)", c.id, c.retErr, okSends, len(c.drops), want)
			}
		case !ownCancel:
			if len(c.drops) != 0 {
				o.AddViolation("C26", "C26.drop-count", "drop-count not-cancelled", "call %d returned %v (not a cancellation) but %d drop requests were sent", c.id, c.retErr, len(c.drops))
			}
		}
	}
	if !w.closing {
		return
	}
	if c.startSeq > w.closeBeg.seq {
		// started after ForceClose began
		if w.closed && c.startSeq > w.closeEnd.seq && c.returned {
			p, tg := retryable(c.retErr)
			if !errors.Is(c.retErr, tdrpc.ErrEngineClosed) || !p || !tg || len(c.sends) > 0 {
				o.AddViolation("C26", "C26.do-after-close", "do-after-close", "call %d started after ForceClose returned: err=%v sends=%d retryable(pool=%v,telegram=%v)", c.id, c.retErr, len(c.sends), p, tg)
			}
		}
		return
	}
	// pending (or finished) when ForceClose began. A call the harness had
	// started but the engine had not yet transmitted may legitimately be
	// refused after the close; it must still return (checked at the end).
	if w.closed && !c.returned {
		o.AddViolation("C26", "C26.stranded", "stranded-forever", "call %d never returned although ForceClose completed (#%d)", c.id, w.closeEnd.seq)
		return
	}
	transmitted := len(c.sends) > 0 && c.sends[0].beginSeq < w.closeBeg.seq
	// (compared in simulated time: the harness logs the return after Do
	// returned, possibly after ForceClose's own return was logged)
	if w.closed && transmitted && c.ret.t > w.closeEnd.t {
		o.AddViolation("C26", "C26.stranded", "stranded", "call %d was pending when ForceClose began (#%d) and had not returned when ForceClose returned (#%d)", c.id, w.closeBeg.seq, w.closeEnd.seq)
		return
	}
	if !c.returned || c.ret.seq < w.closeBeg.seq {
		return
	}
	// returned during the close
	if w.closed && w.closeEnd.t-w.closeBeg.t > w.maxLat+time.Millisecond {
		o.AddViolation("C26", "C26.slow-close", "slow-close", "ForceClose took %v of simulated time (max send latency %v)", w.closeEnd.t-w.closeBeg.t, w.maxLat)
	}
	// classification, only when nothing else competed
	if len(c.sends) == 0 {
		return
	}
	first := c.sends[0].beginSeq
	resAny := len(maybe(c.resBegin, c.resDone, c.startSeq)) > 0
	if resAny || c.ctxDone || c.retErr == nil {
		return
	}
	for _, sr := range c.sends {
		if sr.err != nil {
			return // the call failed because a transmission failed
		}
		if sr.beginSeq > w.closeBeg.seq || !sr.done || sr.endSeq > w.closeBeg.seq {
			return // a transmission raced with the close (timer and close at the same instant)
		}
	}
	ackedBefore := firstBefore(sure(c.ackBegin, c.ackDone, first), w.closeBeg.seq)
	ackAny := len(maybe(c.ackBegin, c.ackDone, c.startSeq)) > 0
	p, tg := retryable(c.retErr)
	switch {
	case ackedBefore:
		if errors.Is(c.retErr, tdrpc.ErrEngineClosed) || p || tg {
			o.AddViolation("C26", "C26.acked-retryable", "acked-retryable", "call %d was acknowledged before ForceClose, yet failed with %v which callers treat as retryable (pool=%v telegram=%v)", c.id, c.retErr, p, tg)
		}
	case !ackAny:
		if errors.Is(c.retErr, &tdrpc.RetryLimitReachedErr{}) && len(c.sends) == 1+w.limit {
			return
		}
		if !errors.Is(c.retErr, tdrpc.ErrEngineClosed) || !p || !tg {
			o.AddViolation("C26", "C26.unacked-not-retryable", "unacked-not-retryable", "call %d was sent but never acknowledged when ForceClose hit, yet failed with %v (engine-closed=%v pool-retryable=%v telegram-retryable=%v)", c.id, c.retErr, errors.Is(c.retErr, tdrpc.ErrEngineClosed), p, tg)
		}
	}
}
