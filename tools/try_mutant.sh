#!/bin/sh
# tools/try_mutant.sh <patch.diff> <property> [property...]
# Applies the patch to /repo, runs the quick checks, and always restores /repo.
patch=$1; shift
cd /repo || exit 2
if ! git diff --quiet -- . ':!telegram/uploader/testdata/video.mp4'; then echo "try_mutant: /repo is dirty" >&2; exit 2; fi
git apply "$patch" 2>/dev/null || git apply -3 "$patch" 2>/dev/null || { echo "try_mutant: patch does not apply" >&2; git checkout -- . ; exit 3; }
trap 'cd /repo && git checkout -- . && git reset -q' EXIT
cd /verif
rc=0
for p in "$@"; do
  # evidence files describe the unchanged tree: keep them out of mutant runs
  [ -f evidence/$p.json ] && cp evidence/$p.json /var/tmp/evidence-$p.json.keep
  out=$(VERIF_BUDGET_S=${VERIF_BUDGET_S:-30} ./check.sh "$p" quick 2>&1); code=$?
  [ -f /var/tmp/evidence-$p.json.keep ] && mv /var/tmp/evidence-$p.json.keep evidence/$p.json
  echo "$out" | grep -E "^(VIOLATION|violation:|KNOWN-FINDING|runs=)" | cut -c1-300
  echo "== $p exit=$code"
  [ $code -eq 2 ] && echo "$out" | tail -15
done
