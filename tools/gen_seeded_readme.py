#!/usr/bin/env python3
"""Writes seeded/README.md: every kept property-breaking change and the check that catches it."""
import glob, json, os
here = os.path.dirname(os.path.dirname(os.path.abspath(__file__)))
rows = []
for d in sorted(glob.glob(os.path.join(here, "seeded", "*"))):
    m = os.path.join(d, "meta.json")
    if not os.path.isfile(m):
        continue
    j = json.load(open(m))
    caught = j.get("detection", {}).get("caught_by") or "not a detection target: neutralised by a later fix (see NOTE.md)"
    if "NOT-A-VIOLATION" in d:
        caught = "not a detection target: does not violate the statement as given (see NOTE.md)"
    rows.append((os.path.basename(d), j.get("property", "?"), j.get("title", "").replace("|", "/"), caught.replace("|", "/")))
with open(os.path.join(here, "seeded", "README.md"), "w") as f:
    f.write("# Seeded property-breaking changes\n\nEach directory holds `patch.diff` (applies to /repo HEAD with `git -C /repo apply`), the author's\n"
            "demonstration test (`demo/`), and `meta.json` (what was changed, how it was confirmed in a scratch\nworktree, which check catches it). "
            "All were written by sub-agents that saw only the property text and\ntheir own worktree; each compiles and passes the existing tests of the packages it touches.\n"
            "Re-run one with `tools/try_mutant.sh seeded/<id>/patch.diff <property>`.\n\n| id | property | change | caught by |\n|---|---|---|---|\n")
    for r in rows:
        f.write("| %s | %s | %s | %s |\n" % r)
print(len(rows), "entries")
