#!/usr/bin/env python3
"""Regenerates /verif/MANIFEST.json from the tables below (kept in one place so
that the claimed set, the N/A list and cmd/check/props.go stay in step)."""
import json, os, re, sys

HERE = os.path.dirname(os.path.dirname(os.path.abspath(__file__)))

# property -> (world(s), level, technique, level text, level note, design ref)
CLAIMED = {
    "C24": ("rpc,wire", "exploration",
            "deterministic simulation of the real rpc.Engine under a seeded token-passing scheduler; history oracle on output writes vs. return events; plus (world wire) the real mtproto.Conn answered in every result form (plain / gzip-packed / in a container, value or rpc_error, duplicates, foreign ids) with a completion oracle",
            "Seeded search over schedules and notification/cancel/close fault sequences of the real rpc.Engine; every Do call's output writes, their addressee and their position relative to the return event are checked on the recorded history. Sampling: a clean batch is evidence, not proof; the interleavings that matter (handler fetched, caller returns, handler decodes) need a specific 3-step order that only a controlled scheduler produces.",
            "Trusted: the instrumenter's rewrite of select/chan/go/sync preserves semantics; the harness send/drop/decoder stubs; testing/synctest's fake clock.",
            "DESIGN.md §6 C24"),
    "C25": ("rpc", "exploration",
            "deterministic simulation with simulated time; send-log oracle against a retry model (identity, spacing, bound, stop after ack/result)",
            "Seeded search over lost acks/requests, failing sends, send latency and timer/notification coincidences; the per-request transmission log is checked in simulated time against the retry rule stated by the property. Same-instant races between the retry timer and a notification are inherent and tolerated (compared in simulated time).",
            "Trusted: as C24; retry interval and limit are configuration inputs drawn per run, not constants copied from the implementation.",
            "DESIGN.md §6 C25"),
    "C26": ("rpc", "exploration",
            "deterministic simulation; bounded-liveness and error-classification oracle around ForceClose, drop-request conservation on cancellation",
            "Seeded search over close/cancel instants relative to sends, acks and results; checks that nobody is stranded after ForceClose, that un-acked calls fail retryably (rpc.ErrEngineClosed and the pool/telegram predicates reached through overlay exports) and acked ones do not, and that cancelled calls cause exactly one drop iff sent.",
            "Trusted: as C24; classification is only asserted when no other event raced with the close.",
            "DESIGN.md §6 C26"),
    "C27": ("pool", "exploration",
            "deterministic simulation of the real pool.DC over fake connections; invariants on the fakes at every event",
            "Seeded search over schedules, connection readiness/death instants, caller cancellations and timeouts; invariants checked on the fake connections at every creation and Invoke: live connections <= max, no overlapping Invokes on one connection, no Invoke handed to a connection at a simulated time later than its death.",
            "Trusted: instrumenter rewrite; fake pool.Conn behaves like manager.Conn within the fault model (Run blocks until death, Ready fires once, Invoke on a dead connection returns ErrConnDead).",
            "DESIGN.md §6 C27"),
    "C28": ("pool", "exploration",
            "deterministic simulation; conservation oracle: after faults stop, `max` probe callers must be served concurrently (rendezvous inside the fake connections)",
            "Seeded search with cancellations/timeouts aimed at connection creation and hand-over windows plus connection deaths; after the fault phase a probe of `max` simultaneous callers must rendezvous inside Invoke within a simulated hour, otherwise capacity was lost; leaked connections are classified black-box (never used / idle after use).",
            "Trusted: as C27; the probe is black-box (no pool internals read).",
            "DESIGN.md §6 C28"),
    "C01": ("updates", "exploration",
            "deterministic simulation of the real updates.Manager against a model server and a lossy/duplicating/reordering push network, plus the real sequenceBox driven directly; refinement against a per-sequence position model",
            "Seeded search over server histories (common pts, qts, seq, 0-3 channels), push loss/duplication/delay/reordering/batching, difference slicing, API errors and goroutine interleavings of the main loop with the per-channel workers; at every handler call each update's earlier positions must be delivered or covered by a fetched difference and no identity may be delivered twice; the box-level harness checks the tracked position against a reference position model after every Handle/apply.",
            "Trusted: the model server follows the public update-handling documentation (DESIGN appendix D); identities are recoverable from delivered updates; 'covered by a fetched difference' starts when the response is handed to the library.",
            "DESIGN.md §6 C01"),
    "C02": ("updates", "exploration",
            "deterministic simulation, two phases (faults, then quiet for two idle periods of simulated time); conservation oracle: server log minus too-long-reported ranges is a subset of the handler log",
            "Seeded search as C01 with differences whose other_updates carry pts-bearing non-message updates interleaved with new_messages positions, slices, updatesTooLong, channel differences; after faults stop and two 15-minute idle periods of simulated time every committed update of the common, secret and tracked-channel logs must have been handed to the handler.",
            "Trusted: as C01; bounded liveness is asserted only after the fault phase, within 2 idle timeouts + slack of simulated time.",
            "DESIGN.md §6 C02"),
    "C03": ("updates", "fault_enumeration",
            "deterministic simulation with crash/restart: invariant at every storage write (persisted positions cover only delivered or too-long-reported updates), crash at storage-call / handler-call boundaries and arbitrary yields, restart from the durable state, conservation across both incarnations",
            "Seeded search over histories as C01/C02 with one crash per run placed before/after the k-th storage call, before/after the k-th handler call or at the n-th yield of the manager's tasks, injected storage write errors, then a restart from exactly what the storage made durable; checks the persist-ahead invariant at every write and that the union of both runs' handler logs covers the server log.",
            "Trusted: storage writes are atomic and immediately durable; a crash freezes every task of the manager at that exact point (nothing finishes up); crash points are sampled, not enumerated (level kept as fault_enumeration because the fault dimension is the crash point).",
            "DESIGN.md §6 C03"),
    "C04": ("wire", "exploration",
            "deterministic simulation: client/server cipher pair under a failing entropy source, and the real mtproto.Conn against a decrypting server endpoint (with and without the gzip path); wire monitor on every frame",
            "Seeded search over header fields, payload lengths clustered at block/compression boundaries up to 1 MiB, entropy faults (short reads, errors), compression thresholds and concurrent invokes; every frame must decrypt on the other side to exactly the submitted fields and payload, with a body length divisible by 16 and 12..1024 bytes of padding. The value space is sampled by the workload generator; what simulation adds is the two-party setting, the failing entropy source and the connection-level path.",
            "Trusted: crypto.NewServerCipher as the server's decryptor; simrand.",
            "DESIGN.md §6 C04"),
    "C05": ("wire", "exploration",
            "deterministic simulation with a corrupting network between a scripted server and the real mtproto.Conn: bit flips (key id, msg key, body), truncation, extension, block swaps, reflection, foreign keys, wrong direction; no-effect oracle",
            "Seeded search over tampering kind and position with a pending RPC and a recording handler; a tampered/reflected/foreign frame must be refused by DecryptFromBuffer (error, no data) and must cause no handler call and no RPC completion; honest traffic afterwards must still be accepted.",
            "Trusted: each tampered frame carries a marker that exists in no untampered frame, so any effect is attributable.",
            "DESIGN.md §6 C05"),
    "C07": ("wire", "exploration",
            "deterministic simulation: scripted server crafts otherwise valid frames (other session, wrong id type, age boundaries, replays, illegal paddings via the harness's own MTProto 2.0 encryption, unaligned length) under client clock skew; reference acceptance model; the replay buffer also against the window rule directly",
            "Seeded search over crafted-message kinds, boundary values (299/300/301 s, 29/30/31 s, padding 0..1040), replay distance (one of the last 8 accepted), clock skew and pauses; a message must reach the handler iff the reference model (written from the property text) accepts it, replays at most once.",
            "Trusted: the harness's own encryption for paddings the library never emits (crypto.MessageKey/Keys + IGE); replays are sent only after the original was processed; replay clause stated for N >= 8 at connection level and exactly (n in 1..8) at buffer level.",
            "DESIGN.md §6 C07"),
    "C08": ("wire", "exploration",
            "deterministic simulation: the id generator under clock faults (frozen, 1-3 ns crawl, coarse ticks, backward jumps) with concurrent callers, and the connection-level tap of every written frame under concurrent invokes/pings/acks",
            "Seeded search over clock behaviours and caller interleavings; ids must be strictly increasing in generation order, divisible by 4, time-monotone and close to the clock reading; on the wire, in message-id order, content messages must carry seq_no 2c+1 and service messages 2c.",
            "Trusted: generation order is observed through the clock seam (the clock is read inside the generator's lock).",
            "DESIGN.md §6 C08"),
    "C23": ("wire", "exploration",
            "deterministic simulation with a byzantine but authenticated server: fuzz-corpus bodies (14k files), mutations, generated service messages, containers/gzip/rpc_result nests, while invokes are pending; no-panic and routing oracle",
            "Seeded search over payload kinds and nesting, with 0-4 pending invokes holding unique expected results; connection code must not panic, and an invoke that completes must return a value the server addressed to its own message id.",
            "Trusted: panics attributed to gotd/td when the panicking frame is a /repo file.",
            "DESIGN.md §6 C23"),
    "C41": ("wire", "exploration",
            "deterministic simulation in simulated time: scripted session salts, future_salts sets (expired, overlapping, duplicated, far future), bad_server_salt at chosen requests, clock jumps; wire monitor on the salt of every frame and on re-sends",
            "Seeded search over salt schedules, rejection plans (0/1/2 rejections per request), pauses from seconds to hours and clock jumps; every frame's salt must be the last salt the server told or an unexpired stored future salt; a rejected request must be re-sent with the new salt and succeed after one rejection, fail after two, and not be sent again.",
            "Trusted: server-side bookkeeping of what it told the client; expiry judged on the client's clock.",
            "DESIGN.md §6 C41"),
    "C43": ("wire", "exploration",
            "deterministic simulation in simulated time: pongs that match, mismatch, duplicate, arrive inside rpc_result, late, exactly at the deadline or never; half-open link (writes block); ping-result and keep-alive liveness oracle",
            "Seeded search over pong plans, ping/keep-alive timing and a link whose writes stall; Ping may return nil only after its own pong was delivered and must return by the end of its context; a keep-alive ping without a timely pong must end the connection within the ping timeout.",
            "Trusted: bubble clock; the scripted server's record of which pong was handed to the client when.",
            "DESIGN.md §6 C43"),
    "C09": ("exchange", "exploration",
            "deterministic simulation of the real client flow against the in-tree server flow over a frame pipe with latency and task interleavings; both random streams come from the tape, with short reads, entropy errors and DH exponents steered to shared keys with leading zero bytes; agreement oracle",
            "Seeded search over both sides' random streams (including injected short reads / read errors and exponents chosen so that the shared key starts with 1-2 zero bytes), permanent and temporary mode, 12 datacenter ids including negative and extreme ones, latencies and interleavings; whenever the client succeeds the server must too, with equal key, key id and salt, non-zero key, id consistent with the key, correct expiry; without entropy faults the exchange must succeed.",
            "Trusted: fixed RSA keys / the in-tree TestServerRNG prime; frame-level transport (no byte chunking).",
            "DESIGN.md §6 C09"),
    "C10": ("exchange", "exploration",
            "deterministic simulation of the real client flow against (a) a scripted peer with a library of single deviations and (b) a man in the middle in front of the in-tree server altering, replacing, truncating or replaying server messages; never-completes oracle with well-behaved variants as controls",
            "Seeded search over 22 deviation classes (no private key, untrusted fingerprint, altered nonces at each step, tampered/ truncated/ extended encrypted answer, inner nonces, composite / even / non-safe / 1024- and 2047-bit moduli, unacceptable generators, ten out-of-range g_a shapes, dh fail/retry, wrong hash) and man-in-the-middle edits of each field of each server message; the client must fail for every deviation and succeed, with the peer's key, for the equivalent variants (another safe prime, another acceptable generator).",
            "Trusted: the deviation library is bounded (statement: 'bounded adversary library'); acceptability of g follows the published quadratic-residue rule; moduli were generated and classified offline (testdata).",
            "DESIGN.md §6 C10"),
    "C12": ("exchange", "exploration",
            "deterministic simulation in simulated time of a peer that goes silent at step 1, 2 or 3 of the exchange, for the bare client flow, mtproto.Conn connect without and with PFS (either exchange) and key regeneration after auth-key-not-found; bounded-liveness oracle",
            "Seeded search over the silent step x level (bare, connect, PFS perm/temp exchange, regeneration) x exchange timeout x caller deadline (none or far later) x link latency; the call must fail no later than the exchange timeout after the peer received the unanswered request.",
            "Trusted: bubble clock; 'step started' is taken as the arrival of the request at the peer (never earlier than the client's write).",
            "DESIGN.md §6 C12"),
    "C29": ("client", "exploration",
            "deterministic simulation of the real telegram.Client stack (reconnect loop, invokeConn retry, manager.Conn, mtproto.Conn, rpc.Engine) against scripted server endpoints behind a simulated dialer; per-request tape plans (ack/result/kill placements), failing dials, then calm or client shutdown; execution-log oracle against delivered-ack ground truth, bounded liveness",
            "Seeded search over 1-3 concurrent requests x nine server plans per transmission (ack then result, result only, ack then link death, death before ack, silence then death, ack and death together, result and death together, ...) x 1-3 link deaths x failing re-dials x caller deadlines x interleavings; a request whose ack the client had read clearly before its link died is never transmitted on a later connection and does not return success without a result; a request never acknowledged is sent again on the replacement connection and succeeds once faults stop; results go to their own request; after the client is closed pending and new invocations return within 30 s.",
            "Trusted: the link tap's record of when the client's reader took a frame; acks racing the link death count as either outcome; connection establishment uses a pre-seeded auth key (the key exchange itself is C09-C12).",
            "DESIGN.md §6 C29"),
    "C30": ("client", "exploration",
            "deterministic simulation of the real telegram.Client (session restore, onSession/saveSession, pools, migration, reconnect) with its connection constructor replaced by fakes that own distinct keys/salts and fire session notifications in tape order; every stored blob checked against the confirmed (DC, key, salt) triples; corrupted stored sessions",
            "Seeded search over PFS on/off x stored session (none, sound for DC 2/4/unset, corrupted key bytes / key id / length) x 2-9 operations (other-DC pool, same-DC pool, CDN pool, migration by call or by USER_MIGRATE answer, connection kill, repeated session notification with a new salt, invocations), sequential or concurrent, and task interleavings; every session the client stores must load, have a key id that belongs to its key, and pair a DC that has been primary with a key (permanent key under PFS) and salt that one non-CDN connection to that DC announced together; a corrupted stored session makes Run fail before the callback and is never handed to a connection; a sound one is what the first connection gets.",
            "Trusted: fake connections stand in for manager.Conn (which maps mtproto session events to the handler one to one); the overlay export VerifSetConstructor is the same seam the package's own tests use.",
            "DESIGN.md §6 C30"),
    "C16": ("stream", "exploration",
            "deterministic simulation of codecs + transport connection/listener over a chunking byte-stream network with concurrent senders; sequence-equality oracle",
            "Seeded search over codec x handshake/listener mode x obfuscation x read chunking x 1-3 concurrent senders x payload sizes clustered at the length-encoding boundaries; the receiver must get exactly the sent payloads (per-sender order, byte-exact, once), 4-byte frames must surface as *codec.ProtocolErr with that code, and the listener's detected codec must be the client's.",
            "Trusted: instrumenter rewrite; simnet byte stream (FIFO, arbitrary segmentation); crypto.DefaultRand hooked to the tape.",
            "DESIGN.md §6 C16"),
    "C17": ("stream", "exploration",
            "deterministic simulation with a hostile/corrupting peer (aimed length prefixes, bit flips, truncation, garbage) against every codec and the transport read path; no-panic and allocation-bound oracle",
            "Seeded search over attack class x codec x read path (codec.Read, client connection, listener + accepted connection) x chunking; every read must return a frame or an error, a panic in gotd/td code is a violation, and the buffer handed to a read must never be grown beyond the 16 MiB frame limit (+25% allocator slack).",
            "Trusted: panics are attributed to gotd/td when the panicking frame is a /repo file; the frame limit (16 MiB) is taken from the transport documentation.",
            "DESIGN.md §6 C17"),
    "C18": ("stream", "exploration",
            "deterministic simulation of obfuscated2 client handshake vs. Accept over a chunking stream, entropy source biased towards reserved prefixes; metadata/stream equality and wire-monitor oracle",
            "Seeded search over protocol tags, DC ids (negative, test offsets, full int16 range), secrets, read chunking, short entropy reads and entropy that spells the reserved first words; both sides must agree on tag and DC, both byte streams must read back unchanged, and the 64-byte header on the wire must avoid every reserved pattern.",
            "Trusted: reserved-pattern list taken from the transport-obfuscation documentation; simrand/simnet.",
            "DESIGN.md §6 C18"),
    "C19": ("stream", "exploration",
            "deterministic simulation of FakeTLS: independent proxy-side server-hello writer (honest / wrong secret / wrong random / flipped bits), two FakeTLS ends exchanging writes of boundary sizes under chunking, TLS record wire monitor",
            "Seeded search over write sizes clustered at 16384, 65535, 65536, 131071 and larger, read chunking, and cheating proxies; the handshake must succeed iff the digest is HMAC(secret, client random || hello); bytes read must equal bytes written and every record on the wire must carry a 16-bit length equal to its payload.",
            "Trusted: the harness's server-hello writer and record parser follow the MTProxy FakeTLS description / RFC 5246 record layout independently of the code under test.",
            "DESIGN.md §6 C19"),
    "C31": ("fs", "fault_enumeration",
            "deterministic simulation of session.FileStorage over a simulated disk; complete enumeration of crash points (every syscall boundary x torn-write class x recovery model) per sampled save sequence",
            "For each sampled sequence of 1-3 saves (session contents and sizes from the seed) the check enumerates EVERY syscall boundary of the saves, six torn-write prefixes for write syscalls, a process-crash model and seven power-loss survival patterns (including 'rename survived, data did not'), restarts from what is durable and requires Loader.Load to return exactly the previous or the new session (any complete earlier session under power loss). Exhaustive over crash points of each sampled history; histories are sampled.",
            "Trusted: simos models the syscalls the storage performs (open/write/fsync/rename/close) and their durability like a journalling POSIX file system (fsync makes data and the file's own creation durable; renames need a directory fsync); the instrumenter's os->simos import swap in session/storage_file.go.",
            "DESIGN.md §6 C31"),
    "C32": ("transfer", "exploration",
            "deterministic simulation of the real uploader against a recording fake upload RPC (true/false/flood-wait/fatal answers, latency) with 1-8 worker tasks and a short-reading source; part-multiset and descriptor oracle",
            "Seeded search over file sizes at the part/10 MiB/3999-part boundaries, explicit valid and invalid part sizes, automatic sizing, known/unknown totals, thread counts, refusal/flood/fatal patterns and worker interleavings; on success the accepted part numbers must be exactly 0..n-1 once each, every request must carry the source bytes of its part, and the descriptor must state n, the small/big kind and the MD5.",
            "Trusted: the synthetic source f(seed, offset); limits 10 MiB / 3999 / 512 KiB are taken from the upload documentation, not from the implementation.",
            "DESIGN.md §6 C32"),
    "C33": ("transfer", "exploration",
            "deterministic simulation of plain streaming and parallel downloads against a fake upload.getFile (flood waits, retryable timeouts, fatal errors, latency) with 1-8 worker tasks; interval-coverage oracle on the writer",
            "Seeded search over sizes at part boundaries, part sizes, thread counts, fault patterns and worker interleavings; a completed download must have written exactly the file's bytes, every byte once (no gap, no overlap), with the served file type.",
            "Trusted: synthetic file; recording io.Writer/io.WriterAt.",
            "DESIGN.md §6 C33"),
    "C34": ("transfer", "exploration",
            "deterministic simulation of hash-verified and CDN downloads against an adversarial peer (corrupt/truncate/extend/reorder bytes, re-upload, token invalidation) with an independently implemented AES-CTR CDN; completion-implies-genuine oracle and request-window monitor",
            "Seeded search over verification modes (master+verify, CDN inline, CDN+verify), window partitions, corruption placement and kind, CDN control events, faults and interleavings; a download that returns nil must equal the genuine file and every upload.getCdnFile request must satisfy the documented alignment constraints.",
            "Trusted: the harness's own AES-CTR (block cipher + manual big-endian counter, counter = iv with last 4 bytes = offset/16) and SHA-256 windows; CDN constraints from the CDN documentation.",
            "DESIGN.md §6 C34"),
    "C40": ("transfer", "exploration",
            "deterministic simulation in simulated time: every FLOOD_WAIT_n / FLOOD_PREMIUM_WAIT_n answered by the fake servers obliges the next attempt of that call to start no earlier than n+1 s later; parsing is checked only on the injected errors",
            "Timing clause decided by simulation across uploads and downloads (flood waits of 0-3 s, both kinds, interleaved with refusals and timeouts); the parsing clause is input sampling riding on the simulation (declared as such): each injected error must parse to its type and argument.",
            "Trusted: bubble clock; only errors the fault injector generates are parsed (no claim for arbitrary error strings).",
            "DESIGN.md §6 C40"),
    "C42": ("dial", "exploration",
            "deterministic simulation of the real dcs.Plain dial race over a scripted simulated dialer; quiescence oracle on established connections",
            "Seeded search over per-address dial outcomes (success, failure, hang, success after cancellation, reset before handshake), latencies, caller cancellation/deadline and goroutine interleavings; at quiescence exactly the returned connection is open (or none on error), and an all-fail error combines every cause.",
            "Trusted: instrumenter rewrite; the scripted DialFunc and simulated net.Conn; quiescence = 5 simulated seconds after the resolver returned.",
            "DESIGN.md §6 C42"),
}

PURE = {
    "C06": "pure function of (auth key, message key, direction): no schedule, clock, fault, crash or second party to simulate",
    "C11": "pure function of (key, iv, ciphertext): no schedule, clock, fault or interleaving in the property",
    "C13": "number-theoretic predicates on their arguments only; nothing for a simulator to schedule or fault",
    "C14": "pure given the random stream; no concurrency, time or I/O behaviour in the property",
    "C15": "pure arithmetic on the inputs; no concurrency, time, I/O or multi-party behaviour",
    "C20": "pure encode/decode of a byte slice; input generation alone would be property-based testing, not simulation",
    "C21": "pure encode/decode of generated types; no schedule, clock or fault dimension",
    "C22": "pure decode of a byte slice (containers, gzip bound); no schedule, clock or fault dimension",
    "C35": "pure string/slice computation",
    "C36": "pure ordering of a slice",
    "C37": "pure function of the input string",
    "C38": "pure encode/decode round-trip",
    "C39": "sequential pagination whose outcome is a function of (history, page size); the property quantifies over no fault or concurrent change",
}

NOT_YET = "claimed in DESIGN.md but its world is not built yet in this tree; no check registered (will be moved to checks when the world exists)"


def main():
    props = [json.loads(l) for l in open(os.path.join(HERE, "properties.jsonl"))]
    ids = [p["id"] for p in props]
    checks = []
    for pid in ids:
        if pid not in CLAIMED:
            continue
        world, level, tech, text, note, ref = CLAIMED[pid]
        checks.append({
            "property_id": pid,
            "quick_cmd": f"./check.sh {pid} quick",
            "thorough_cmd": f"./check.sh {pid} thorough",
            "evidence_file": f"/verif/evidence/{pid}.json",
            "replay_cmd_template": f"./check.sh {pid} replay {{path}}",
            "engine": "dst",
            "level_claimed": {"category": level, "text": text, "design_ref": ref},
            "level_note": note,
            "technique": tech,
        })
    na = []
    for pid in ids:
        if pid in CLAIMED:
            continue
        na.append({"property_id": pid, "reason": PURE.get(pid, NOT_YET)})
    m = {
        "version": 1,
        "setup_cmd": "./setup.sh",
        "hooks": {
            "guard": "verif (build tag on files added through go build -overlay; no file of /repo is modified or added on disk)",
            "enable": "cmd/instrument rewrites /repo's working tree into a scratch overlay (select/chan/go/sync/map-range -> verif/simrt, verif/simsync) and adds /verif/overlay_add/**/zz_verif_export.go; worlds are built with `go test -c -tags verif -overlay <scratch>/overlay.json`",
            "baseline_off_cmd": "cd /repo && go test -vet=off -count=1 -timeout 25m ./...",
            "source_commits": [],
            "add_only": True,
        },
        "engines": [{
            "name": "dst",
            "path": "/verif/simrt /verif/simsync /verif/simnet /verif/simos /verif/dst /verif/cmd/instrument /verif/cmd/check /verif/worlds",
            "serves_properties": [c["property_id"] for c in checks],
            "kind_free_text": "deterministic simulation with fault injection: one testing/synctest bubble per run, token-passing scheduler, multi-stream choice tape (one integer decides everything), simulated network/disk/randomness, tape shrinker, replay files",
        }],
        "checks": checks,
        "not_applicable": na,
        "notes": "See DESIGN.md. Exit codes of every check: 0 held, 1 VIOLATION (replay file confirmed in a fresh process), 2 harness/build trouble (never a verdict). KNOWN_FINDINGS lists genuine defects recorded or fixed.",
    }
    with open(os.path.join(HERE, "MANIFEST.json"), "w") as f:
        json.dump(m, f, indent=1)
        f.write("\n")
    # keep cmd/check/props.go in step
    lines = ["package main", "", "// Code generated by tools/gen_manifest.py; DO NOT EDIT.", "",
             "// propDef maps a claimed property to the world(s) that decide it.",
             "type propDef struct {", "\tWorlds      []string", "\tLevel       string",
             "\tQuickS      int // simulation budget in seconds (after the build)", "\tThoroughS   int",
             "\tAssumptions []string", "}", "", "var props = map[string]propDef{"]
    for pid in ids:
        if pid in CLAIMED:
            world, level = CLAIMED[pid][0], CLAIMED[pid][1]
            ws = ", ".join('"%s"' % w for w in world.split(","))
            extra = BUDGET.get(pid, "")
            lines.append(f'\t"{pid}": {{Worlds: []string{{{ws}}}, Level: "{level}"{extra}}},')
    lines.append("}")
    with open(os.path.join(HERE, "cmd/check/props.go"), "w") as f:
        f.write("\n".join(lines) + "\n")


# the exchange world spends ~0.5 s of CPU per run on 2048-bit primality tests
BUDGET = {"C09": ", QuickS: 60", "C10": ", QuickS: 60", "C12": ", QuickS: 45"}

if __name__ == "__main__":
    main()
