#!/bin/bash
# tools/confirm_mutant.sh <mutant-dir> [patch-file]
# Confirms in a scratch worktree of /repo HEAD (outside /repo and /verif): the
# demo passes on the unchanged tree, fails with the patch, and the existing
# tests of the touched packages still pass with the patch. Prints a summary.
set -u
md=$1; patch=${2:-$md/patch.diff}
export GOFLAGS=-mod=mod GOPROXY=off
wt=/tmp/confirm-wt-$$
git -C /repo worktree add -q --detach "$wt" HEAD || exit 2
trap 'git -C /repo worktree remove --force "$wt" >/dev/null 2>&1' EXIT
cd "$wt" || exit 2
readme=$(mktemp); tr '\n' ' ' < $md/demo/README.md | sed -E 's/(go test )/\n    \1/g; s/(Clean tree|Expected|What the|With `?patch)/\n\1/g' > $readme; echo >> $readme
mapfile -t copies < <( { grep -oE 'Copy `[^`]+` to `[^`]+`' "$readme" | sed -E 's/Copy `([^`]+)` to `([^`]+)`/\1 \2/'; grep -oE '[A-Za-z0-9_./-]+\.go[` ]*-> *`?[A-Za-z0-9_./-]+\.go' "$readme" | sed -E 's/[` ]*-> *`?/ /'; } | awk '{n=split($1,a,"/"); src=$1; if (index($1,"demo/")) {sub(/^.*demo\//,"",src)}; print src" "$2}' | sort -u)
if [ ${#copies[@]} -eq 0 ]; then echo "no demo copy instructions parsed from $readme"; exit 2; fi
mapfile -t cmds < <(grep -E '^\s*go test ' "$md/demo/README.md" | sed -E 's/^\s+//')
if [ ${#cmds[@]} -eq 0 ]; then echo "no go test command found in $readme"; exit 2; fi
copy_demo() { for c in "${copies[@]}"; do set -- $c; mkdir -p "$(dirname "$2")"; cp "$md/demo/$1" "$2"; done; }
rm_demo() { for c in "${copies[@]}"; do set -- $c; rm -f "$2"; done; }
run_cmds() { local rc=0; for c in "${cmds[@]}"; do bash -c "$c" >"$wt/.demo.log" 2>&1 || rc=1; done; return $rc; }
copy_demo
if run_cmds; then clean=pass; else clean=FAIL; tail -5 "$wt/.demo.log"; fi
rm_demo
git apply "$patch" 2>/dev/null || git apply -3 "$patch" || { echo "patch does not apply to HEAD"; exit 3; }
pkgs=$(git diff --name-only | xargs -n1 dirname | sort -u | sed 's#^#./#' | tr '\n' ' ')
if go build ./... >"$wt/.build.log" 2>&1; then build=ok; else build=FAIL; tail -5 "$wt/.build.log"; fi
if go test -count=1 $pkgs >"$wt/.pkg.log" 2>&1; then pkg=pass; else pkg=FAIL; tail -8 "$wt/.pkg.log"; fi
copy_demo
if run_cmds; then mut=PASS-unexpected; else mut=fails; fi
rm_demo
echo "CONFIRM $(basename $(dirname $(dirname $md)))/$(basename $md): clean-demo=$clean build=$build existing-tests[$pkgs]=$pkg demo-with-mutant=$mut"
