#!/bin/bash
# tools/keep_mutant.sh <agent-mutant-dir> <seeded-id> <patch-applicable-to-HEAD> <caught-by> <confirm-line>
md=$1; id=$2; patch=$3; caught=$4; confirm=$5
dst=/verif/seeded/$id
mkdir -p $dst/demo
cp $patch $dst/patch.diff
[ "$patch" != "$md/patch.diff" ] && cp $md/patch.diff $dst/patch.pinned-commit.diff
cp -r $md/demo/. $dst/demo/
python3 - "$md/meta.json" "$dst/meta.json" "$caught" "$confirm" "$(git -C /repo log --format=%h -1)" <<'PY'
import json,sys
m=json.load(open(sys.argv[1]))
out={"property":m.get("property"),"title":m.get("title"),"what":m.get("what"),"needs":m.get("needs"),"files":m.get("files"),
"author_tests_run":m.get("tests_run"),
"confirmed":{"against_repo_head":sys.argv[5],"how":"tools/confirm_mutant.sh in a scratch worktree of /repo HEAD under /tmp (removed afterwards): demo passes on the clean tree, go build ./... ok, existing tests of touched packages pass with the patch, demo fails with the patch","result":sys.argv[4]},
"detection":{"how":"tools/try_mutant.sh (git -C /repo apply; ./check.sh <property> quick; git checkout)","caught_by":sys.argv[3]}}
json.dump(out,open(sys.argv[2],"w"),indent=1)
PY
echo kept $dst
