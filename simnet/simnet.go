// Package simnet is a cooperative in-memory byte-stream network for the
// simulator: net.Conn pairs and listeners whose blocking operations release the
// run token, whose deadlines follow the bubble clock, and whose delivery can
// be chunked, delayed, stalled, corrupted, truncated or reset by the tape.
package simnet

import (
	"context"
	"errors"
	"io"
	"net"
	"os"
	"syscall"
	"time"

	"verif/simrt"
)

type addr string

func (a addr) Network() string { return "tcp" }
func (a addr) String() string  { return string(a) }

type segment struct {
	data []byte
	at   time.Duration // readable from this simulated time on
}

// half is one direction of a connection.
type half struct {
	segs    []segment
	closed  bool // writer closed (EOF after draining)
	reset   bool // connection reset: reads fail at once
	stalled bool // nothing is delivered while set
	waitq   []chan struct{}
	written int64
	read    int64
}

func (h *half) wake() {
	for _, c := range h.waitq {
		close(c)
	}
	h.waitq = nil
}

// Options of one connection (both directions unless noted).
type Options struct {
	// Chunk > 0: a Read returns at most Choose(Net, Chunk)+1 bytes.
	Chunk int
	// Latency added to every write before it becomes readable.
	Latency time.Duration
	// Jitter: additional latency in units of JitterUnit chosen from the tape
	// (0..Jitter); delivery stays FIFO.
	Jitter     int
	JitterUnit time.Duration
}

// Conn is one end of a simulated connection.
type Conn struct {
	Name     string
	rd, wr   *half
	local    addr
	remote   addr
	rdl, wdl time.Time
	closed   bool
	opt      Options
	peer     *Conn

	// Tap, if set, sees every Write before delivery and returns the bytes to
	// deliver (it may corrupt, truncate, extend or drop them).
	Tap func(c *Conn, p []byte) []byte
	// OnClose is called once when this end is closed locally.
	OnClose func(c *Conn)
	// Closed reports local Close; Established is set by the creator.
	ClosedAt time.Duration
}

// Pipe creates a connected pair.
func Pipe(a, b string, opt Options) (*Conn, *Conn) {
	h1, h2 := &half{}, &half{}
	ca := &Conn{Name: a + "->" + b, rd: h1, wr: h2, local: addr(a), remote: addr(b), opt: opt}
	cb := &Conn{Name: b + "->" + a, rd: h2, wr: h1, local: addr(b), remote: addr(a), opt: opt}
	ca.peer, cb.peer = cb, ca
	return ca, cb
}

// SetChunk changes the read chunking of this end.
func (c *Conn) SetChunk(n int) { c.opt.Chunk = n }

func (c *Conn) Peer() *Conn    { return c.peer }
func (c *Conn) IsClosed() bool { return c.closed }

// BytesWritten / BytesRead by this end.
func (c *Conn) BytesWritten() int64 { return c.wr.written }
func (c *Conn) BytesRead() int64    { return c.rd.read }

// Pending reports bytes written by the peer and not yet read by this end.
func (c *Conn) Pending() int {
	n := 0
	for _, s := range c.rd.segs {
		n += len(s.data)
	}
	return n
}

func deadlineErr(op string) error {
	return &net.OpError{Op: op, Net: "tcp", Err: os.ErrDeadlineExceeded}
}

func (c *Conn) Read(p []byte) (int, error) {
	simrt.Yield(0)
	for {
		if c.closed {
			return 0, &net.OpError{Op: "read", Net: "tcp", Err: net.ErrClosed}
		}
		if c.rd.reset {
			return 0, &net.OpError{Op: "read", Net: "tcp", Err: syscall.ECONNRESET}
		}
		now := simrt.Now()
		var waitFor time.Duration = -1
		if !c.rd.stalled && len(c.rd.segs) > 0 {
			s := &c.rd.segs[0]
			if s.at <= now {
				if len(p) == 0 {
					return 0, nil
				}
				max := len(p)
				if c.opt.Chunk > 0 && simrt.Active() {
					if k := 1 + simrt.Choose(simrt.Net, c.opt.Chunk); k < max {
						max = k
					}
				}
				n := copy(p[:max], s.data)
				s.data = s.data[n:]
				if len(s.data) == 0 {
					c.rd.segs = c.rd.segs[1:]
				}
				c.rd.read += int64(n)
				return n, nil
			}
			waitFor = s.at - now
		}
		if !c.rd.stalled && len(c.rd.segs) == 0 && c.rd.closed {
			return 0, io.EOF
		}
		if !c.rdl.IsZero() && !time.Now().Before(c.rdl) {
			return 0, deadlineErr("read")
		}
		ch := make(chan struct{})
		c.rd.waitq = append(c.rd.waitq, ch)
		dl := c.rdl
		simrt.Block(0, "net-read "+c.Name, func() {
			var tc <-chan time.Time
			d := time.Duration(-1)
			if !dl.IsZero() {
				d = time.Until(dl)
			}
			if waitFor >= 0 && (d < 0 || waitFor < d) {
				d = waitFor
			}
			if d >= 0 {
				t := time.NewTimer(d)
				defer t.Stop()
				tc = t.C
			}
			select {
			case <-ch:
			case <-tc:
			}
		})
	}
}

func (c *Conn) Write(p []byte) (int, error) {
	simrt.Yield(0)
	if c.closed {
		return 0, &net.OpError{Op: "write", Net: "tcp", Err: net.ErrClosed}
	}
	if c.wr.reset || c.wr.closed {
		return 0, &net.OpError{Op: "write", Net: "tcp", Err: syscall.EPIPE}
	}
	if !c.wdl.IsZero() && !time.Now().Before(c.wdl) {
		return 0, deadlineErr("write")
	}
	n := len(p)
	data := append([]byte(nil), p...)
	if c.Tap != nil {
		data = c.Tap(c, data)
	}
	c.wr.written += int64(n)
	if len(data) > 0 {
		at := simrt.Now() + c.opt.Latency
		if c.opt.Jitter > 0 && simrt.Active() {
			at += time.Duration(simrt.Choose(simrt.Net, c.opt.Jitter+1)) * c.opt.JitterUnit
		}
		if k := len(c.wr.segs); k > 0 && c.wr.segs[k-1].at > at {
			at = c.wr.segs[k-1].at // FIFO
		}
		c.wr.segs = append(c.wr.segs, segment{data, at})
		c.wr.wake()
	}
	return n, nil
}

// Inject makes raw bytes appear on c's read side (a corrupting network or a
// hostile peer).
func (c *Conn) Inject(p []byte) {
	c.rd.segs = append(c.rd.segs, segment{append([]byte(nil), p...), simrt.Now()})
	c.rd.wake()
}

func (c *Conn) Close() error {
	simrt.Yield(0)
	if c.closed {
		return &net.OpError{Op: "close", Net: "tcp", Err: net.ErrClosed}
	}
	c.closed = true
	c.ClosedAt = simrt.Now()
	c.wr.closed = true
	c.wr.wake()
	c.rd.wake()
	if c.OnClose != nil {
		c.OnClose(c)
	}
	return nil
}

// CloseWrite half-closes: the peer reads EOF after draining.
func (c *Conn) CloseWrite() error {
	c.wr.closed = true
	c.wr.wake()
	return nil
}

// Reset kills the connection in both directions (RST): pending data is lost.
func (c *Conn) Reset() {
	for _, h := range []*half{c.rd, c.wr} {
		h.reset = true
		h.segs = nil
		h.wake()
	}
}

// Stall stops (or resumes) delivery towards this end.
func (c *Conn) Stall(on bool) {
	c.rd.stalled = on
	c.rd.wake()
}

func (c *Conn) LocalAddr() net.Addr  { return c.local }
func (c *Conn) RemoteAddr() net.Addr { return c.remote }

func (c *Conn) SetDeadline(t time.Time) error {
	c.rdl, c.wdl = t, t
	c.rd.wake()
	return nil
}

func (c *Conn) SetReadDeadline(t time.Time) error {
	c.rdl = t
	c.rd.wake()
	return nil
}

func (c *Conn) SetWriteDeadline(t time.Time) error { c.wdl = t; return nil }

// Listener accepts simulated connections.
type Listener struct {
	name   string
	q      []*Conn
	waitq  []chan struct{}
	closed bool
	Opt    Options
	seq    int
	// Conns records every connection ever established (client end, server end).
	Conns [][2]*Conn
}

func NewListener(name string, opt Options) *Listener { return &Listener{name: name, Opt: opt} }

func (l *Listener) Accept() (net.Conn, error) {
	simrt.Yield(0)
	for {
		if l.closed {
			return nil, &net.OpError{Op: "accept", Net: "tcp", Err: net.ErrClosed}
		}
		if len(l.q) > 0 {
			c := l.q[0]
			l.q = l.q[1:]
			return c, nil
		}
		ch := make(chan struct{})
		l.waitq = append(l.waitq, ch)
		simrt.Block(0, "net-accept "+l.name, func() { <-ch })
	}
}

func (l *Listener) wake() {
	for _, c := range l.waitq {
		close(c)
	}
	l.waitq = nil
}

func (l *Listener) Close() error {
	if l.closed {
		return nil
	}
	l.closed = true
	l.wake()
	return nil
}

func (l *Listener) Addr() net.Addr { return addr(l.name) }

var ErrRefused = &net.OpError{Op: "dial", Net: "tcp", Err: syscall.ECONNREFUSED}

// Dial connects to the listener (no latency; see DialAfter).
func (l *Listener) Dial(ctx context.Context) (net.Conn, error) {
	return l.DialAfter(ctx, 0)
}

// DialAfter connects after d of simulated time (or fails with the context).
func (l *Listener) DialAfter(ctx context.Context, d time.Duration) (*Conn, error) {
	simrt.Yield(0)
	if d > 0 {
		t := time.NewTimer(d)
		i, _, _ := simrt.Select(0, false, simrt.SelRecv(ctx.Done()), simrt.SelRecv(t.C))
		t.Stop()
		if i == 0 {
			return nil, &net.OpError{Op: "dial", Net: "tcp", Err: ctx.Err()}
		}
	}
	if err := ctx.Err(); err != nil {
		return nil, &net.OpError{Op: "dial", Net: "tcp", Err: err}
	}
	if l.closed {
		return nil, ErrRefused
	}
	l.seq++
	a, b := Pipe("client"+itoa(l.seq), l.name, l.Opt)
	l.q = append(l.q, b)
	l.Conns = append(l.Conns, [2]*Conn{a, b})
	l.wake()
	return a, nil
}

func itoa(n int) string {
	if n == 0 {
		return "0"
	}
	var b []byte
	for n > 0 {
		b = append([]byte{byte('0' + n%10)}, b...)
		n /= 10
	}
	return string(b)
}

// IsTimeout reports whether err is a deadline error of this package.
func IsTimeout(err error) bool {
	var ne net.Error
	return errors.As(err, &ne) && ne.Timeout()
}
