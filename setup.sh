#!/bin/sh
# Offline set-up after a fresh restore: build the orchestrator, warm the Go
# build cache with one instrumented build of every world, and prove
# determinism on a small sample (same seeds, separate processes, GOMAXPROCS 1/4/16).
cd "$(dirname "$0")" || exit 2
export GOFLAGS=-mod=mod GOPROXY=off GOTOOLCHAIN=auto
unset GOSUMDB
mkdir -p bin evidence replays
go build -o bin/check ./cmd/check || exit 2
VERIF_SELFTEST_SEEDS=${VERIF_SELFTEST_SEEDS:-12} VERIF_SELFTEST_REPS=${VERIF_SELFTEST_REPS:-2} ./bin/check selftest || exit 2
echo "setup OK"
