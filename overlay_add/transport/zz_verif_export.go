//go:build verif

package transport

// VerifCodecOf returns the codec a connection created by Protocol.Handshake or
// Listener.Accept uses (added through go build -overlay by /verif; not part of
// gotd/td).
func VerifCodecOf(c Conn) Codec {
	if cc, ok := c.(*connection); ok {
		return cc.codec
	}
	return nil
}
