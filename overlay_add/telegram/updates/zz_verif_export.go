//go:build verif

package updates

import (
	"context"
	"time"
)

// Verification-only access to the unexported sequence box (added through
// go build -overlay by /verif; not part of gotd/td).

// VerifUpdate mirrors update: Value is opaque, State is the position after the
// update, Count the number of positions it covers.
type VerifUpdate struct {
	Value any
	State int
	Count int
}

// VerifBox wraps a real sequenceBox.
type VerifBox struct{ b *sequenceBox }

// VerifNewBox constructs a real sequence box whose apply callback is apply.
func VerifNewBox(initial int, apply func(ctx context.Context, state int, updates []VerifUpdate) error) *VerifBox {
	return &VerifBox{b: newSequenceBox(sequenceConfig{
		InitialState: initial,
		Apply: func(ctx context.Context, state int, ups []update) error {
			out := make([]VerifUpdate, len(ups))
			for i, u := range ups {
				out[i] = VerifUpdate{Value: u.Value, State: u.State, Count: u.Count}
			}
			return apply(ctx, state, out)
		},
	})}
}

func (v *VerifBox) Handle(ctx context.Context, u VerifUpdate) error {
	return v.b.Handle(ctx, update{Value: u.Value, State: u.State, Count: u.Count})
}
func (v *VerifBox) State() int                 { return v.b.State() }
func (v *VerifBox) SetState(s int)             { v.b.SetState(s, "verif difference") }
func (v *VerifBox) ClearGaps()                 { v.b.gaps.Clear() }
func (v *VerifBox) HasGaps() bool              { return v.b.gaps.Has() }
func (v *VerifBox) Pending() int               { return len(v.b.pending) }
func (v *VerifBox) GapTimer() <-chan time.Time { return v.b.gapTimeout.C }
