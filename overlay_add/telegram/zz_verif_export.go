//go:build verif

package telegram

// VerifRetryableOnNewConn exposes the client's "safe to retry on a new
// connection" predicate to the verification harness (added through
// go build -overlay by /verif; not part of gotd/td).
func VerifRetryableOnNewConn(err error) bool { return errRetryableOnNewConn(err) }
