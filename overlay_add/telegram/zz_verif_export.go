//go:build verif

package telegram

import (
	"github.com/gotd/td/bin"
	"github.com/gotd/td/mtproto"
	"github.com/gotd/td/pool"
	"github.com/gotd/td/telegram/internal/manager"
	"github.com/gotd/td/tg"
)

// VerifRetryableOnNewConn exposes the client's "safe to retry on a new
// connection" predicate to the verification harness (added through
// go build -overlay by /verif; not part of gotd/td).
func VerifRetryableOnNewConn(err error) bool { return errRetryableOnNewConn(err) }

// VerifConnSpec is what the client asks of its connection constructor, in
// types a package outside gotd/td can name (manager is internal).
type VerifConnSpec struct {
	Dialer  mtproto.Dialer
	Mode    int // manager.ConnMode: 0 updates, 1 data, 2 CDN
	DC      int
	Opts    mtproto.Options
	Handler interface {
		OnSession(cfg tg.Config, s mtproto.Session) error
		OnMessage(b *bin.Buffer) error
	}
	OnDead   func(error)
	HasSetup bool
}

// VerifSetConstructor replaces the connection constructor of a client that
// has not been started (the seam the package's own tests use) and re-creates
// the primary connection through it.
func VerifSetConstructor(c *Client, f func(spec VerifConnSpec) pool.Conn) {
	c.create = func(create mtproto.Dialer, mode manager.ConnMode, appID int, opts mtproto.Options, connOpts manager.ConnOptions) pool.Conn {
		return f(VerifConnSpec{Dialer: create, Mode: int(mode), DC: connOpts.DC, Opts: opts, Handler: connOpts.Handler, OnDead: connOpts.OnDead, HasSetup: connOpts.Setup != nil})
	}
	c.connMux.Lock()
	c.conn = c.createPrimaryConn(nil)
	c.connMux.Unlock()
}
