// Package simos is an in-memory file system with the subset of the os API
// that session storage code uses (or that a repair of it plausibly uses),
// with a volatile/durable split, syscall-granular crash points, torn writes,
// I/O errors and two recovery models (process crash, power loss).
//
// The instrumenter swaps `import "os"` for this package in
// session/storage_file.go only. When no simulated FS is installed every call
// passes through to the real os package.
package simos

import (
	"errors"
	"fmt"
	"io"
	"io/fs"
	"os"
	"path/filepath"
	"sort"
	"strings"
	"syscall"
	"time"

	"verif/simrt"
)

type (
	FileMode  = fs.FileMode
	FileInfo  = fs.FileInfo
	PathError = fs.PathError
)

const (
	O_RDONLY = os.O_RDONLY
	O_WRONLY = os.O_WRONLY
	O_RDWR   = os.O_RDWR
	O_APPEND = os.O_APPEND
	O_CREATE = os.O_CREATE
	O_EXCL   = os.O_EXCL
	O_SYNC   = os.O_SYNC
	O_TRUNC  = os.O_TRUNC

	ModePerm = fs.ModePerm
	ModeDir  = fs.ModeDir
)

var (
	ErrNotExist   = fs.ErrNotExist
	ErrExist      = fs.ErrExist
	ErrPermission = fs.ErrPermission
	ErrClosed     = fs.ErrClosed
)

func IsNotExist(err error) bool   { return os.IsNotExist(err) }
func IsExist(err error) bool      { return os.IsExist(err) }
func IsPermission(err error) bool { return os.IsPermission(err) }
func Getpid() int                 { return 4242 }
func TempDir() string             { return "/tmp" }

type inode struct {
	id     int
	cur    []byte
	synced []byte // content as of the last fsync (nil if never synced)
	everSy bool
	isDir  bool
	mode   FileMode
}

type nsOp struct {
	kind     string // link | unlink | rename
	path, to string
	ino      *inode
}

// FS is one simulated file system.
type FS struct {
	cur     map[string]*inode // volatile namespace
	dur     map[string]*inode // durable namespace
	pending []nsOp            // namespace operations not yet durable, in order
	nextIno int
	tmpSeq  int

	// Syscalls counts syscall boundaries seen so far.
	Syscalls int
	// Log of syscalls, for traces and crash-point enumeration.
	Log []string
	// CrashAt: freeze the calling task's group right before syscall number
	// CrashAt (1-based); 0 = never. TornAt: if the syscall CrashAt is a write,
	// apply only TornBytes(len) of it first.
	CrashAt   int
	TornBytes func(n int) int
	// ErrAt: syscall number (1-based) that fails with Err.
	ErrAt int
	Err   error
	// Crashed is set when the crash fired.
	Crashed bool
}

// Current is the installed FS (nil: pass through to the real os).
var Current *FS

func New() *FS {
	f := &FS{cur: map[string]*inode{}, dur: map[string]*inode{}}
	root := &inode{isDir: true, mode: ModeDir | 0o755}
	f.cur["/"] = root
	f.dur["/"] = root
	return f
}

func clean(p string) string { return filepath.Clean("/" + p) }

// sys marks a syscall boundary: crash or fail here if so configured.
// Returns (tornCrash, err).
func (f *FS) sys(name string, arg string) (torn bool, err error) {
	f.Syscalls++
	f.Log = append(f.Log, fmt.Sprintf("%d:%s %s", f.Syscalls, name, arg))
	simrt.Ev("syscall", "%d %s %s", f.Syscalls, name, arg)
	if f.CrashAt == f.Syscalls {
		if name == "write" && f.TornBytes != nil {
			return true, nil
		}
		f.crash("before " + name)
	}
	if f.ErrAt == f.Syscalls && f.Err != nil {
		simrt.FaultFired("io-error", "%s at syscall %d: %v", name, f.Syscalls, f.Err)
		return false, f.Err
	}
	return false, nil
}

func (f *FS) crash(where string) {
	f.Crashed = true
	simrt.FaultFired("crash", "%s (syscall %d)", where, f.Syscalls)
	simrt.CrashNow() // never returns inside a simulation
}

// ---- recovery models -----------------------------------------------------------

// RecoverProcessCrash: the OS survived; everything completed syscalls did is
// there.
func (f *FS) RecoverProcessCrash() *FS {
	n := New()
	n.nextIno, n.tmpSeq = f.nextIno, f.tmpSeq
	copies := map[*inode]*inode{}
	for p, ino := range f.cur {
		c, ok := copies[ino]
		if !ok {
			c = &inode{id: ino.id, cur: append([]byte(nil), ino.cur...), isDir: ino.isDir, mode: ino.mode}
			c.synced, c.everSy = append([]byte(nil), ino.cur...), true
			copies[ino] = c
		}
		n.cur[p] = c
		n.dur[p] = c
	}
	return n
}

// RecoverPowerLoss: only fsynced data and a tape-chosen prefix of the pending
// namespace operations survive; un-synced file data independently survives
// completely, partially (torn at a 512-byte or byte grid) or not at all.
func (f *FS) RecoverPowerLoss(choose func(n int) int) *FS {
	n := New()
	n.nextIno, n.tmpSeq = f.nextIno, f.tmpSeq
	names := map[string]*inode{}
	for p, ino := range f.dur {
		names[p] = ino
	}
	k := choose(len(f.pending) + 1) // how many pending namespace ops reached the disk
	// value 0 = none survived (the "simplest" outcome past the tape end)
	for _, op := range f.pending[:k] {
		switch op.kind {
		case "link":
			names[op.path] = op.ino
		case "unlink":
			delete(names, op.path)
		case "rename":
			if ino, ok := names[op.path]; ok {
				delete(names, op.path)
				names[op.to] = ino
			} else {
				names[op.to] = op.ino
			}
		}
	}
	copies := map[*inode]*inode{}
	var paths []string
	for p := range names {
		paths = append(paths, p)
	}
	sort.Strings(paths)
	for _, p := range paths {
		ino := names[p]
		c, ok := copies[ino]
		if !ok {
			c = &inode{id: ino.id, isDir: ino.isDir, mode: ino.mode, everSy: true}
			data := ino.synced
			if !ino.isDir && !bytesEqual(ino.cur, ino.synced) {
				switch choose(4) {
				case 0: // nothing of the un-synced data
					data = ino.synced
				case 1: // all of it
					data = ino.cur
				case 2: // torn at a 512-byte grid
					blocks := len(ino.cur)/512 + 1
					cut := choose(blocks) * 512
					if cut > len(ino.cur) {
						cut = len(ino.cur)
					}
					data = ino.cur[:cut]
				case 3: // torn at a byte
					data = ino.cur[:choose(len(ino.cur)+1)]
				}
			}
			c.cur = append([]byte(nil), data...)
			c.synced = append([]byte(nil), data...)
			copies[ino] = c
		}
		n.cur[p] = c
		n.dur[p] = c
	}
	return n
}

func bytesEqual(a, b []byte) bool { return string(a) == string(b) }

// MakeDurable marks the whole current state durable (harness set-up).
func (f *FS) MakeDurable() {
	f.dur = map[string]*inode{}
	for p, ino := range f.cur {
		f.dur[p] = ino
		ino.synced = append([]byte(nil), ino.cur...)
		ino.everSy = true
	}
	f.pending = nil
}

// Peek returns the volatile content of path (harness use; no syscall).
func (f *FS) Peek(path string) ([]byte, bool) {
	ino, ok := f.cur[clean(path)]
	if !ok || ino.isDir {
		return nil, false
	}
	return append([]byte(nil), ino.cur...), true
}

// Put installs a file (harness use; no syscall).
func (f *FS) Put(path string, data []byte) {
	p := clean(path)
	f.mkdirAllRaw(filepath.Dir(p))
	f.nextIno++
	ino := &inode{id: f.nextIno, cur: append([]byte(nil), data...), mode: 0o600}
	f.cur[p] = ino
}

// Names lists volatile paths (harness use).
func (f *FS) Names() []string {
	var out []string
	for p, ino := range f.cur {
		if !ino.isDir {
			out = append(out, p)
		}
	}
	sort.Strings(out)
	return out
}

func (f *FS) mkdirAllRaw(dir string) {
	dir = clean(dir)
	var parts []string
	for d := dir; d != "/"; d = filepath.Dir(d) {
		parts = append(parts, d)
	}
	for i := len(parts) - 1; i >= 0; i-- {
		if _, ok := f.cur[parts[i]]; !ok {
			f.nextIno++
			ino := &inode{id: f.nextIno, isDir: true, mode: ModeDir | 0o755}
			f.cur[parts[i]] = ino
			f.dur[parts[i]] = ino // directories are not the subject here
		}
	}
}

// ---- os API ----------------------------------------------------------------------

type File struct {
	real *os.File
	fs   *FS
	ino  *inode
	path string
	flag int
	off  int
	shut bool
}

func pathErr(op, path string, err error) error { return &PathError{Op: op, Path: path, Err: err} }

func OpenFile(name string, flag int, perm FileMode) (*File, error) {
	f := Current
	if f == nil {
		r, err := os.OpenFile(name, flag, perm)
		if err != nil {
			return nil, err
		}
		return &File{real: r}, nil
	}
	p := clean(name)
	if _, err := f.sys("open", fmt.Sprintf("%s flag=%#x", p, flag)); err != nil {
		return nil, pathErr("open", name, err)
	}
	ino, ok := f.cur[p]
	if ok && flag&O_CREATE != 0 && flag&O_EXCL != 0 {
		return nil, pathErr("open", name, syscall.EEXIST)
	}
	if !ok {
		if flag&O_CREATE == 0 {
			return nil, pathErr("open", name, syscall.ENOENT)
		}
		if d, ok := f.cur[filepath.Dir(p)]; !ok || !d.isDir {
			return nil, pathErr("open", name, syscall.ENOENT)
		}
		f.nextIno++
		ino = &inode{id: f.nextIno, mode: perm}
		f.cur[p] = ino
		f.pending = append(f.pending, nsOp{kind: "link", path: p, ino: ino})
	} else if flag&O_TRUNC != 0 && !ino.isDir {
		ino.cur = nil
	}
	fl := &File{fs: f, ino: ino, path: p, flag: flag}
	if flag&O_APPEND != 0 {
		fl.off = len(ino.cur)
	}
	return fl, nil
}

func Open(name string) (*File, error) { return OpenFile(name, O_RDONLY, 0) }

func Create(name string) (*File, error) { return OpenFile(name, O_RDWR|O_CREATE|O_TRUNC, 0o666) }

func CreateTemp(dir, pattern string) (*File, error) {
	f := Current
	if f == nil {
		r, err := os.CreateTemp(dir, pattern)
		if err != nil {
			return nil, err
		}
		return &File{real: r}, nil
	}
	if dir == "" {
		dir = TempDir()
	}
	prefix, suffix := pattern, ""
	if i := strings.LastIndex(pattern, "*"); i >= 0 {
		prefix, suffix = pattern[:i], pattern[i+1:]
	}
	for {
		f.tmpSeq++
		name := filepath.Join(dir, fmt.Sprintf("%s%09d%s", prefix, f.tmpSeq*7919, suffix))
		fl, err := OpenFile(name, O_RDWR|O_CREATE|O_EXCL, 0o600)
		if IsExist(err) {
			continue
		}
		return fl, err
	}
}

func (fl *File) Name() string {
	if fl.real != nil {
		return fl.real.Name()
	}
	return fl.path
}

func (fl *File) Write(p []byte) (int, error) {
	if fl.real != nil {
		return fl.real.Write(p)
	}
	if fl.shut {
		return 0, pathErr("write", fl.path, ErrClosed)
	}
	if fl.flag&(O_WRONLY|O_RDWR) == 0 {
		return 0, pathErr("write", fl.path, syscall.EBADF)
	}
	f := fl.fs
	torn, err := f.sys("write", fmt.Sprintf("%s off=%d len=%d", fl.path, fl.off, len(p)))
	if err != nil {
		// a failing write may have stored a prefix (short write)
		n := 0
		if errors.Is(err, syscall.ENOSPC) && len(p) > 1 {
			n = len(p) / 2
			fl.store(p[:n])
		}
		return n, pathErr("write", fl.path, err)
	}
	if torn {
		n := f.TornBytes(len(p))
		fl.store(p[:n])
		simrt.FaultFired("torn-write", "%d of %d bytes", n, len(p))
		f.crash("inside write")
	}
	fl.store(p)
	if fl.flag&O_SYNC != 0 {
		fl.ino.synced = append([]byte(nil), fl.ino.cur...)
		fl.ino.everSy = true
	}
	return len(p), nil
}

func (fl *File) store(p []byte) {
	if fl.flag&O_APPEND != 0 {
		fl.off = len(fl.ino.cur)
	}
	end := fl.off + len(p)
	if end > len(fl.ino.cur) {
		fl.ino.cur = append(fl.ino.cur, make([]byte, end-len(fl.ino.cur))...)
	}
	copy(fl.ino.cur[fl.off:], p)
	fl.off = end
}

func (fl *File) WriteString(s string) (int, error) { return fl.Write([]byte(s)) }

func (fl *File) Read(p []byte) (int, error) {
	if fl.real != nil {
		return fl.real.Read(p)
	}
	if fl.shut {
		return 0, pathErr("read", fl.path, ErrClosed)
	}
	if _, err := fl.fs.sys("read", fl.path); err != nil {
		return 0, pathErr("read", fl.path, err)
	}
	if fl.off >= len(fl.ino.cur) {
		return 0, io.EOF
	}
	n := copy(p, fl.ino.cur[fl.off:])
	fl.off += n
	return n, nil
}

func (fl *File) Seek(offset int64, whence int) (int64, error) {
	if fl.real != nil {
		return fl.real.Seek(offset, whence)
	}
	switch whence {
	case io.SeekStart:
		fl.off = int(offset)
	case io.SeekCurrent:
		fl.off += int(offset)
	case io.SeekEnd:
		fl.off = len(fl.ino.cur) + int(offset)
	}
	return int64(fl.off), nil
}

func (fl *File) Truncate(size int64) error {
	if fl.real != nil {
		return fl.real.Truncate(size)
	}
	if _, err := fl.fs.sys("ftruncate", fmt.Sprintf("%s %d", fl.path, size)); err != nil {
		return pathErr("truncate", fl.path, err)
	}
	if int(size) <= len(fl.ino.cur) {
		fl.ino.cur = fl.ino.cur[:size]
	} else {
		fl.ino.cur = append(fl.ino.cur, make([]byte, int(size)-len(fl.ino.cur))...)
	}
	return nil
}

func (fl *File) Sync() error {
	if fl.real != nil {
		return fl.real.Sync()
	}
	if fl.shut {
		return pathErr("sync", fl.path, ErrClosed)
	}
	f := fl.fs
	if _, err := f.sys("fsync", fl.path); err != nil {
		return pathErr("sync", fl.path, err)
	}
	if fl.ino.isDir {
		// directory fsync: every pending namespace operation below it becomes durable
		var rest []nsOp
		for _, op := range f.pending {
			if filepath.Dir(op.path) == fl.path || (op.to != "" && filepath.Dir(op.to) == fl.path) {
				f.applyDurable(op)
			} else {
				rest = append(rest, op)
			}
		}
		f.pending = rest
		return nil
	}
	fl.ino.synced = append([]byte(nil), fl.ino.cur...)
	fl.ino.everSy = true
	// like ext4: fsync of a file also commits the creation of its own name
	var rest []nsOp
	for _, op := range f.pending {
		if op.kind == "link" && op.ino == fl.ino {
			f.applyDurable(op)
		} else {
			rest = append(rest, op)
		}
	}
	f.pending = rest
	return nil
}

func (f *FS) applyDurable(op nsOp) {
	switch op.kind {
	case "link":
		f.dur[op.path] = op.ino
	case "unlink":
		delete(f.dur, op.path)
	case "rename":
		delete(f.dur, op.path)
		f.dur[op.to] = op.ino
	}
}

func (fl *File) Chmod(mode FileMode) error {
	if fl.real != nil {
		return fl.real.Chmod(mode)
	}
	if _, err := fl.fs.sys("fchmod", fl.path); err != nil {
		return pathErr("chmod", fl.path, err)
	}
	fl.ino.mode = mode
	return nil
}

func (fl *File) Stat() (FileInfo, error) {
	if fl.real != nil {
		return fl.real.Stat()
	}
	return info{filepath.Base(fl.path), fl.ino}, nil
}

func (fl *File) Close() error {
	if fl.real != nil {
		return fl.real.Close()
	}
	if fl.shut {
		return pathErr("close", fl.path, ErrClosed)
	}
	if _, err := fl.fs.sys("close", fl.path); err != nil {
		fl.shut = true
		return pathErr("close", fl.path, err)
	}
	fl.shut = true
	return nil
}

type info struct {
	name string
	ino  *inode
}

func (i info) Name() string       { return i.name }
func (i info) Size() int64        { return int64(len(i.ino.cur)) }
func (i info) Mode() FileMode     { return i.ino.mode }
func (i info) ModTime() time.Time { return time.Time{} }
func (i info) IsDir() bool        { return i.ino.isDir }
func (i info) Sys() any           { return nil }

func Stat(name string) (FileInfo, error) {
	f := Current
	if f == nil {
		return os.Stat(name)
	}
	p := clean(name)
	if _, err := f.sys("stat", p); err != nil {
		return nil, pathErr("stat", name, err)
	}
	ino, ok := f.cur[p]
	if !ok {
		return nil, pathErr("stat", name, syscall.ENOENT)
	}
	return info{filepath.Base(p), ino}, nil
}

func Lstat(name string) (FileInfo, error) { return Stat(name) }

func ReadFile(name string) ([]byte, error) {
	if Current == nil {
		return os.ReadFile(name)
	}
	fl, err := Open(name)
	if err != nil {
		return nil, err
	}
	defer fl.Close()
	var out []byte
	buf := make([]byte, 512)
	for {
		n, err := fl.Read(buf)
		out = append(out, buf[:n]...)
		if err == io.EOF {
			return out, nil
		}
		if err != nil {
			return out, err
		}
	}
}

// WriteFile is decomposed like the real one: open(O_WRONLY|O_CREATE|O_TRUNC),
// write, close.
func WriteFile(name string, data []byte, perm FileMode) error {
	if Current == nil {
		return os.WriteFile(name, data, perm)
	}
	fl, err := OpenFile(name, O_WRONLY|O_CREATE|O_TRUNC, perm)
	if err != nil {
		return err
	}
	_, err = fl.Write(data)
	if err1 := fl.Close(); err1 != nil && err == nil {
		err = err1
	}
	return err
}

func Rename(oldpath, newpath string) error {
	f := Current
	if f == nil {
		return os.Rename(oldpath, newpath)
	}
	o, n := clean(oldpath), clean(newpath)
	if _, err := f.sys("rename", o+" -> "+n); err != nil {
		return &os.LinkError{Op: "rename", Old: oldpath, New: newpath, Err: err}
	}
	ino, ok := f.cur[o]
	if !ok {
		return &os.LinkError{Op: "rename", Old: oldpath, New: newpath, Err: syscall.ENOENT}
	}
	delete(f.cur, o)
	f.cur[n] = ino
	f.pending = append(f.pending, nsOp{kind: "rename", path: o, to: n, ino: ino})
	return nil
}

func Remove(name string) error {
	f := Current
	if f == nil {
		return os.Remove(name)
	}
	p := clean(name)
	if _, err := f.sys("unlink", p); err != nil {
		return pathErr("remove", name, err)
	}
	ino, ok := f.cur[p]
	if !ok {
		return pathErr("remove", name, syscall.ENOENT)
	}
	delete(f.cur, p)
	f.pending = append(f.pending, nsOp{kind: "unlink", path: p, ino: ino})
	return nil
}

func RemoveAll(path string) error {
	f := Current
	if f == nil {
		return os.RemoveAll(path)
	}
	p := clean(path)
	for name := range f.cur {
		if name == p || strings.HasPrefix(name, p+"/") {
			if err := Remove(name); err != nil && !IsNotExist(err) {
				return err
			}
		}
	}
	return nil
}

func Mkdir(name string, perm FileMode) error {
	f := Current
	if f == nil {
		return os.Mkdir(name, perm)
	}
	p := clean(name)
	if _, err := f.sys("mkdir", p); err != nil {
		return pathErr("mkdir", name, err)
	}
	if _, ok := f.cur[p]; ok {
		return pathErr("mkdir", name, syscall.EEXIST)
	}
	f.mkdirAllRaw(p)
	return nil
}

func MkdirAll(path string, perm FileMode) error {
	f := Current
	if f == nil {
		return os.MkdirAll(path, perm)
	}
	if _, err := f.sys("mkdir-all", clean(path)); err != nil {
		return pathErr("mkdir", path, err)
	}
	f.mkdirAllRaw(path)
	return nil
}

func Chmod(name string, mode FileMode) error {
	f := Current
	if f == nil {
		return os.Chmod(name, mode)
	}
	p := clean(name)
	if _, err := f.sys("chmod", p); err != nil {
		return pathErr("chmod", name, err)
	}
	ino, ok := f.cur[p]
	if !ok {
		return pathErr("chmod", name, syscall.ENOENT)
	}
	ino.mode = mode
	return nil
}

func Truncate(name string, size int64) error {
	f := Current
	if f == nil {
		return os.Truncate(name, size)
	}
	fl, err := OpenFile(name, O_WRONLY, 0)
	if err != nil {
		return err
	}
	defer fl.Close()
	return fl.Truncate(size)
}
