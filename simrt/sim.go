package simrt

import (
	"crypto/sha256"
	"fmt"
	"runtime"
	"sort"
	"strings"
	"sync"
	"testing"
	"testing/synctest"
	"time"
)

// Task is one goroutine of the simulated system. Exactly one task holds the
// run token at any instant.
type Task struct {
	ID      int
	Name    string
	Group   int
	grant   chan struct{}
	done    bool
	site    uint32
	blocked string
	// timerWoken: the task became runnable while the scheduler was idle
	// (set by the scheduler, read by the task after it is granted)
	timerWoken bool
	seenParked bool
}

// Event is one entry of the run's history. Seq is the global event sequence
// number oracles order by (never simulated time, under which events tie).
type Event struct {
	Seq  uint64
	Task int
	At   time.Duration
	Kind string
	Arg  string
}

func (e Event) String() string {
	return fmt.Sprintf("#%d t%d @%v %s %s", e.Seq, e.Task, e.At, e.Kind, e.Arg)
}

// Violation is an oracle verdict.
type Violation struct {
	Prop string `json:"property"`
	Rule string `json:"rule"`
	Msg  string `json:"msg"`
	// Sig distinguishes findings of the same rule (victim location, input
	// class, fault kinds); used to match known findings.
	Sig string `json:"sig"`
	Seq uint64 `json:"event_seq"`
}

// Options bound a run.
type Options struct {
	MaxSteps   int // scheduler grants before the run is abandoned (default 2e6)
	MaxYields  int // yields before the run is abandoned (default 2e7)
	DrainSteps int // grants allowed after the world function returned (default 2e5)
	Policy     int // -1: draw from cfg stream
}

// Outcome is everything a run produced.
type Outcome struct {
	Events      []Event
	Violations  []Violation
	Probes      map[string]int
	Faults      map[string]int
	Stuck       bool     // bubble deadlocked while the scheduler was still running
	StuckTasks  []string // live tasks at that point: name@site(reason)
	Panic       string   // first panic inside a task, with stack
	PanicTask   string
	HarnessErr  string // simulator misuse / foreign block: exit 2 material
	StepLimit   bool
	Steps       int
	Yields      int
	Preemptions int
	Switches    int // grants to a task different from the previous one
	MaxLive     int
	Tasks       int
	SimTime     time.Duration
	Fingerprint uint64
	Policy      string
	Tape        *Tape
	Sched       []string
}

// PanicInRepo reports whether the first panic of the run was raised by code of
// gotd/td (file under /repo) rather than by the harness.
func (o *Outcome) PanicInRepo() bool {
	if o.Panic == "" {
		return false
	}
	lines := strings.Split(o.Panic, "\n")
	seenPanic := false
	for _, l := range lines {
		t := strings.TrimSpace(l)
		if strings.HasPrefix(t, "panic(") {
			seenPanic = true
			continue
		}
		if seenPanic && strings.Contains(t, ".go:") {
			if strings.Contains(t, "/runtime/") || strings.Contains(t, "/simrt/") || strings.Contains(t, "/simsync/") {
				continue
			}
			return strings.HasPrefix(t, "/repo/") || strings.Contains(t, "/verif/third_party/")
		}
	}
	return false
}

// PanicLine is the first line of the panic (its value).
func (o *Outcome) PanicLine() string {
	if i := strings.IndexByte(o.Panic, '\n'); i >= 0 {
		return o.Panic[:i]
	}
	return o.Panic
}

// NonTrivial: at least two tasks interleaved or at least one fault fired.
func (o *Outcome) NonTrivial() bool {
	n := 0
	for _, v := range o.Faults {
		n += v
	}
	return n > 0 || (o.Tasks >= 2 && o.Switches >= 2)
}

// Digest is a hash over the whole event log (determinism proof).
func (o *Outcome) Digest() string {
	h := sha256.New()
	for _, e := range o.Events {
		fmt.Fprintf(h, "%d|%d|%d|%s|%s\n", e.Seq, e.Task, e.At, e.Kind, e.Arg)
	}
	fmt.Fprintf(h, "stuck=%v panic=%v steps=%d yields=%d fp=%x", o.Stuck, o.Panic != "", o.Steps, o.Yields, o.Fingerprint)
	return fmt.Sprintf("%x", h.Sum(nil))[:24]
}

// SchedLog makes the scheduler record every decision in Outcome.Sched (debugging aid).
var SchedLog = false

// Sim is the state of the current run.
type Sim struct {
	mu     sync.Mutex
	parked []*Task
	live   int

	cur  *Task
	last *Task
	kick chan struct{}

	Tape  *Tape
	opt   Options
	den   int // switch with probability 1/den at a yield (0: never)
	start time.Time

	tasks     []*Task
	frozen    map[int]bool
	crashAt   map[int]int // group -> remaining yields until the group freezes itself
	onFreeze  map[int]func()
	nextGroup int

	out          *Outcome
	stash        map[uintptr]*stashed
	stashN       int
	abort        bool
	mainDone     bool
	schedStopped bool
	drain        int
}

// S is the active simulation (nil outside a run: all wrappers degrade to the
// plain Go operation).
var S *Sim

const deadlockMsg = "deadlock: " // "all goroutines in bubble are blocked" / "main bubble goroutine has exited but blocked goroutines remain"

// Run executes world inside one synctest bubble under the scheduler.
func Run(t *testing.T, tape *Tape, opt Options, world func(s *Sim)) *Outcome {
	if opt.MaxSteps == 0 {
		opt.MaxSteps = 2_000_000
	}
	if opt.MaxYields == 0 {
		opt.MaxYields = 20_000_000
	}
	if opt.DrainSteps == 0 {
		opt.DrainSteps = 200_000
	}
	out := &Outcome{Probes: map[string]int{}, Faults: map[string]int{}, Tape: tape}
	s := &Sim{Tape: tape, opt: opt, out: out, frozen: map[int]bool{}, crashAt: map[int]int{}, onFreeze: map[int]func(){}}
	pol := opt.Policy
	if pol < 0 {
		pol = tape.Choose(Cfg, 6)
	}
	switch pol {
	case 0:
		s.den, out.Policy = 0, "sequential"
	case 1:
		s.den, out.Policy = 64, "walk/64"
	case 2:
		s.den, out.Policy = 16, "walk/16"
	case 3:
		s.den, out.Policy = 8, "walk/8"
	case 4:
		s.den, out.Policy = 3, "walk/3"
	default:
		s.den, out.Policy = 2, "walk/2"
	}
	func() {
		defer func() {
			S = nil
			if r := recover(); r != nil {
				if strings.Contains(fmt.Sprint(r), deadlockMsg) {
					if !s.schedStopped {
						out.Stuck = true
						s.mu.Lock()
						for _, tk := range s.tasks {
							if !tk.done && !s.frozen[tk.Group] {
								out.StuckTasks = append(out.StuckTasks, fmt.Sprintf("%s@%d(%s)", tk.Name, tk.site, tk.blocked))
							}
						}
						s.mu.Unlock()
					}
					return
				}
				out.HarnessErr = fmt.Sprintf("panic outside tasks: %v\n%s", r, stack())
			}
		}()
		synctest.Test(t, func(t *testing.T) {
			s.kick = make(chan struct{}, 1)
			s.start = time.Now()
			S = s
			Go("main", func() {
				defer func() { s.mainDone = true }()
				world(s)
			})
			s.schedule()
			s.schedStopped = true
			out.SimTime = time.Since(s.start)
		})
	}()
	if out.SimTime == 0 && !s.start.IsZero() {
		out.SimTime = s.simNow()
	}
	out.Tasks = len(s.tasks)
	return out
}

func (s *Sim) simNow() time.Duration {
	if len(s.out.Events) > 0 {
		return s.out.Events[len(s.out.Events)-1].At
	}
	return 0
}

func stack() string {
	b := make([]byte, 1<<16)
	n := runtime.Stack(b, false)
	return string(b[:n])
}

func allStacks() string {
	b := make([]byte, 1<<20)
	n := runtime.Stack(b, true)
	return string(b[:n])
}

func (s *Sim) schedule() {
	fromIdle := false
	for {
		synctest.Wait()
		if s.abort {
			return
		}
		if s.cur != nil {
			s.out.HarnessErr = fmt.Sprintf("token holder %q blocked outside a simrt wrapper (foreign block) at site %d\n%s", s.cur.Name, s.cur.site, allStacks())
			s.abort = true
			return
		}
		s.mu.Lock()
		live := s.live
		if live > s.out.MaxLive {
			s.out.MaxLive = live
		}
		var run []*Task
		for _, t := range s.parked {
			if fromIdle && !t.seenParked {
				// nobody held the token while this task was woken: the fake
				// clock did it (timer, deadline)
				t.timerWoken = true
			}
			t.seenParked = true
			if !s.frozen[t.Group] {
				run = append(run, t)
			}
		}
		fromIdle = false
		var pick *Task
		if len(run) > 0 {
			// index 0 (the value served past the end of a replayed tape) is
			// the task that ran last if it is runnable, else the lowest id.
			sort.Slice(run, func(i, j int) bool {
				a, b := run[i], run[j]
				if (a == s.last) != (b == s.last) {
					return a == s.last
				}
				return a.ID < b.ID
			})
			pick = run[s.Tape.Choose(Sched, len(run))]
			for i, t := range s.parked {
				if t == pick {
					s.parked = append(s.parked[:i], s.parked[i+1:]...)
					break
				}
			}
		}
		liveUnfrozen := 0
		for _, t := range s.tasks {
			if !t.done && !s.frozen[t.Group] {
				liveUnfrozen++
			}
		}
		s.mu.Unlock()
		if pick == nil {
			if liveUnfrozen == 0 {
				return
			}
			<-s.kick
			fromIdle = true
			continue
		}
		s.out.Steps++
		if s.out.Steps > s.opt.MaxSteps {
			s.out.StepLimit = true
			s.abort = true
			return
		}
		if s.mainDone {
			s.drain++
			if s.drain > s.opt.DrainSteps {
				s.abort = true
				return
			}
		}
		if pick != s.last {
			s.out.Switches++
			s.out.Fingerprint = (s.out.Fingerprint ^ (uint64(pick.site)<<20 | uint64(pick.ID))) * 0x100000001b3
		}
		if SchedLog {
			names := ""
			for _, t := range run {
				names += fmt.Sprintf(" %d:%s@%d", t.ID, t.Name, t.site)
			}
			s.out.Sched = append(s.out.Sched, fmt.Sprintf("step %d t=%v pick %d:%s@%d(%s) of [%s ] ev=%d", s.out.Steps, time.Since(s.start), pick.ID, pick.Name, pick.site, pick.blocked, names, len(s.out.Events)))
		}
		s.last = pick
		s.cur = pick
		pick.seenParked = false
		pick.blocked = ""
		pick.grant <- struct{}{}
	}
}

func (s *Sim) kickSched() {
	select {
	case s.kick <- struct{}{}:
	default:
	}
}

// park: the caller does not hold the token; wait until granted.
func (s *Sim) park(t *Task) {
	s.mu.Lock()
	s.parked = append(s.parked, t)
	s.mu.Unlock()
	s.kickSched()
	<-t.grant
}

func (s *Sim) release() *Task {
	t := s.cur
	if t == nil {
		panic("simrt: instrumented code running without the run token (goroutine not started through simrt)")
	}
	s.cur = nil
	return t
}

// Go starts a harness or system task in the group of the running task.
func Go(name string, f func()) *Task {
	g := 0
	if s := S; s != nil && s.cur != nil {
		g = s.cur.Group
	}
	return GoIn(g, name, f)
}

// GoIn starts a task in an explicit group (an "incarnation" that can be
// frozen as a whole to simulate a crash).
func GoIn(group int, name string, f func()) *Task {
	s := S
	if s == nil {
		go f()
		return nil
	}
	s.mu.Lock()
	t := &Task{ID: len(s.tasks), Name: name, Group: group, grant: make(chan struct{})}
	s.tasks = append(s.tasks, t)
	s.live++
	s.mu.Unlock()
	go func() {
		s.park(t)
		defer func() {
			if r := recover(); r != nil {
				if s.out.Panic == "" {
					s.out.Panic = fmt.Sprintf("%v\n%s", r, stack())
					s.out.PanicTask = t.Name
				}
				s.abort = true
			}
			s.mu.Lock()
			t.done = true
			s.live--
			s.mu.Unlock()
			if s.cur == t {
				s.cur = nil
			}
			s.kickSched()
		}()
		f()
	}()
	return t
}

// GoStmt is what a rewritten `go` statement calls.
func GoStmt(site uint32, f func()) {
	s := S
	if s == nil {
		go f()
		return
	}
	Go(fmt.Sprintf("go@%d", site), f)
}

// NewGroup allocates a task group id.
func (s *Sim) NewGroup() int { s.nextGroup++; return s.nextGroup }

// Freeze stops a group for ever: a crash. Its tasks are never granted again,
// nothing "finishes up". The caller must not belong to the group.
func (s *Sim) Freeze(group int) {
	if s.cur != nil && s.cur.Group == group {
		panic("simrt: Freeze of own group; use CrashAfterYields")
	}
	s.mu.Lock()
	s.frozen[group] = true
	s.mu.Unlock()
}

// Frozen reports whether group has crashed.
func (s *Sim) Frozen(group int) bool {
	s.mu.Lock()
	defer s.mu.Unlock()
	return s.frozen[group]
}

// CrashAfterYields arms a crash of group at the n-th yield executed by any of
// its tasks from now on; onFreeze runs (in the crashing task, token held) at
// that instant, before the task stops for ever.
func (s *Sim) CrashAfterYields(group, n int, onFreeze func()) {
	s.crashAt[group] = n
	s.onFreeze[group] = onFreeze
}

// OnFreeze registers f to run at the instant group crashes (CrashNow).
func (s *Sim) OnFreeze(group int, f func()) { s.onFreeze[group] = f }

// CrashNow freezes the group of the running task at this very point (used by
// harness seams such as storage calls made by the system under test).
func CrashNow() {
	s := S
	if s == nil || s.cur == nil {
		return
	}
	g := s.cur.Group
	s.mu.Lock()
	s.frozen[g] = true
	s.mu.Unlock()
	delete(s.crashAt, g)
	if f := s.onFreeze[g]; f != nil {
		delete(s.onFreeze, g)
		f()
	}
	t := s.release()
	s.park(t) // never granted
}

// Yield is a preemption point inserted by the instrumenter.
func Yield(site uint32) {
	s := S
	if s == nil {
		return
	}
	t := s.cur
	if t == nil {
		panic("simrt: Yield without the run token")
	}
	t.site = site
	s.out.Yields++
	if len(s.crashAt) > 0 {
		if n, ok := s.crashAt[t.Group]; ok {
			n--
			if n <= 0 {
				CrashNow()
				return
			}
			s.crashAt[t.Group] = n
		}
	}
	if s.abort || s.out.Yields > s.opt.MaxYields {
		if !s.abort {
			s.out.StepLimit = true
			s.abort = true
		}
		s.release()
		s.park(t) // never granted: the scheduler stops
		return
	}
	// The decision is a function of the tape alone: never look at the parked
	// list here (goroutines woken by this task park concurrently).
	if s.den == 0 || s.Tape.Choose(Sched, s.den) != s.den-1 {
		return
	}
	s.out.Preemptions++
	s.release()
	s.park(t)
}

// Block releases the token, runs wait (which may block durably in the
// bubble), then re-acquires the token.
func Block(site uint32, reason string, wait func()) { block(site, reason, wait) }

// block reports whether the task was woken while the scheduler was idle, i.e.
// by the fake clock (a timer or a context deadline), not by another task.
func block(site uint32, reason string, wait func()) (timerWoken bool) {
	s := S
	if s == nil {
		wait()
		return false
	}
	t := s.release()
	t.site = site
	t.blocked = reason
	t.timerWoken = false
	s.kickSched()
	wait()
	s.park(t)
	return t.timerWoken
}

// Sleep is a token-releasing time.Sleep.
func Sleep(site uint32, d time.Duration) {
	if S == nil {
		time.Sleep(d)
		return
	}
	Block(site, "sleep", func() { time.Sleep(d) })
}

// ---- harness-facing helpers -------------------------------------------------

// Now is the simulated time since the start of the run.
func Now() time.Duration {
	if S == nil {
		return 0
	}
	return time.Since(S.start)
}

// Ev appends to the event log and returns the event sequence number.
func Ev(kind string, format string, args ...any) uint64 {
	s := S
	if s == nil {
		return 0
	}
	id := -1
	if s.cur != nil {
		id = s.cur.ID
	}
	arg := format
	if len(args) > 0 {
		arg = fmt.Sprintf(format, args...)
	}
	seq := uint64(len(s.out.Events))
	s.out.Events = append(s.out.Events, Event{seq, id, time.Since(s.start), kind, arg})
	return seq
}

// Seq returns the sequence number the next event will get.
func Seq() uint64 {
	if S == nil {
		return 0
	}
	return uint64(len(S.out.Events))
}

// Probe counts "this rare condition was hit".
func Probe(name string) {
	if S != nil {
		S.out.Probes[name]++
	}
}

// FaultFired counts an injected fault that actually fired and logs it.
func FaultFired(kind string, format string, args ...any) {
	s := S
	if s == nil {
		return
	}
	s.out.Faults[kind]++
	var h uint64 = 14695981039346656037
	for i := 0; i < len(kind); i++ {
		h = (h ^ uint64(kind[i])) * 0x100000001b3
	}
	s.out.Fingerprint = (s.out.Fingerprint ^ h) * 0x100000001b3
	Ev("FAULT", kind+" "+format, args...)
}

// Mark mixes a world-specific feature (input class, generated history, ...)
// into the run fingerprint used to count distinct runs.
func Mark(vs ...uint64) {
	if s := S; s != nil {
		for _, v := range vs {
			s.out.Fingerprint = (s.out.Fingerprint ^ v) * 0x100000001b3
		}
	}
}

// MarkBytes is Mark over a byte string.
func MarkBytes(p []byte) {
	var h uint64 = 14695981039346656037
	for _, b := range p {
		h = (h ^ uint64(b)) * 0x100000001b3
	}
	Mark(h)
}

// Violate records an oracle verdict (the first per property+rule is kept).
func Violate(prop, rule, sig, format string, args ...any) {
	s := S
	if s == nil {
		panic("simrt: Violate outside a run: " + fmt.Sprintf(format, args...))
	}
	s.out.AddViolation(prop, rule, sig, format, args...)
	Ev("VIOLATION", "%s %s", rule, fmt.Sprintf(format, args...))
}

// AddViolation is used by post-run oracles working on the Outcome.
func (o *Outcome) AddViolation(prop, rule, sig, format string, args ...any) {
	for _, v := range o.Violations {
		if v.Prop == prop && v.Rule == rule && v.Sig == sig {
			return
		}
	}
	o.Violations = append(o.Violations, Violation{Prop: prop, Rule: rule, Sig: sig, Msg: fmt.Sprintf(format, args...), Seq: uint64(len(o.Events))})
}

// Choose / Coin / Range on the active tape.
func Choose(st, n int) int                            { return S.Tape.Choose(st, n) }
func Coin(st, num, den int) bool                      { return S.Tape.Coin(st, num, den) }
func Range(st, lo, hi int) int                        { return S.Tape.Range(st, lo, hi) }
func Active() bool                                    { return S != nil }
func CurrentTask() (int, string)                      { return S.cur.ID, S.cur.Name }
func CurrentSite() uint32                             { return S.cur.site }
func (s *Sim) Outcome() *Outcome                      { return s.out }
func (s *Sim) Abort()                                 { s.abort = true }
func (s *Sim) Aborted() bool                          { return s.abort }
func (s *Sim) MainDone() bool                         { return s.mainDone }
func (s *Sim) LiveTasks() int                         { s.mu.Lock(); defer s.mu.Unlock(); return s.live }
func Dur(units int, unit time.Duration) time.Duration { return time.Duration(units) * unit }
