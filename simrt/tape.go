// Package simrt is the deterministic simulation runtime: a multi-stream
// choice tape, a token-passing task scheduler running inside one
// testing/synctest bubble, cooperative channel/select/sleep wrappers that the
// instrumenter (cmd/instrument) substitutes for the Go constructs in gotd/td,
// an event log, probes, fault counters and violation records.
package simrt

import (
	"encoding/json"
	"fmt"
)

// Stream identifiers. Every decision of a run is drawn from exactly one of
// these sub-streams so that shrinking one (e.g. scheduling) does not shift
// another (e.g. workload).
const (
	Cfg = iota
	Wl
	Sched
	Net
	Fault
	Rand
	Clock
	NStreams
)

var StreamNames = [NStreams]string{"cfg", "wl", "sched", "net", "fault", "rand", "clock"}

type stream struct {
	state uint64
	rec   []uint32
	play  []uint32
	pos   int
}

// Tape is the single source of nondeterminism of a run.
type Tape struct {
	Seed   uint64
	Replay bool
	s      [NStreams]stream
	fills  uint64
}

func splitmix(x *uint64) uint64 {
	*x += 0x9E3779B97F4A7C15
	z := *x
	z = (z ^ (z >> 30)) * 0xBF58476D1CE4E5B9
	z = (z ^ (z >> 27)) * 0x94D049BB133111EB
	return z ^ (z >> 31)
}

// Mix hashes integers into one seed (used to derive per-run seeds).
func Mix(vs ...uint64) uint64 {
	var out uint64 = 0x1234567887654321
	for _, v := range vs {
		// chain through the full finaliser so that small differences in
		// several inputs cannot cancel
		st := out ^ (v * 0xD6E8FEB86659FD93)
		out = splitmix(&st)
	}
	return out
}

// NewTape returns a generating tape for seed.
func NewTape(seed uint64) *Tape {
	t := &Tape{Seed: seed}
	for i := range t.s {
		st := seed ^ (uint64(i+1) * 0xA24BAED4963EE407)
		t.s[i].state = splitmix(&st)
	}
	return t
}

// TapeData is the serialised form: recorded values per stream.
type TapeData map[string][]uint32

// ReplayTape returns a tape that serves the recorded values and zeros past
// the end of each stream.
func ReplayTape(seed uint64, d TapeData) *Tape {
	t := &Tape{Seed: seed, Replay: true}
	for i := range t.s {
		t.s[i].play = d[StreamNames[i]]
	}
	return t
}

// Data returns what the tape handed out so far.
func (t *Tape) Data() TapeData {
	d := TapeData{}
	for i := range t.s {
		d[StreamNames[i]] = append([]uint32(nil), t.s[i].rec...)
	}
	return d
}

// Len is the total number of recorded draws.
func (t *Tape) Len() int {
	n := 0
	for i := range t.s {
		n += len(t.s[i].rec)
	}
	return n
}

// Choose returns a value in [0,n). n<=1 consumes nothing and returns 0.
func (t *Tape) Choose(st int, n int) int {
	if n <= 1 {
		return 0
	}
	s := &t.s[st]
	var v uint32
	if t.Replay {
		if s.pos < len(s.play) {
			v = s.play[s.pos] % uint32(n)
		}
		s.pos++
	} else {
		v = uint32(splitmix(&s.state) % uint64(n))
	}
	s.rec = append(s.rec, v)
	return int(v)
}

// Coin is true with probability num/den.
func (t *Tape) Coin(st int, num, den int) bool {
	if num <= 0 {
		return false
	}
	if num >= den {
		return true
	}
	// value 0 must be "no": the simplest choice past the end of a replay.
	return t.Choose(st, den) >= den-num
}

// Range returns a value in [lo,hi].
func (t *Tape) Range(st int, lo, hi int) int {
	if hi <= lo {
		return lo
	}
	return lo + t.Choose(st, hi-lo+1)
}

// Pick returns one of vs.
func Pick[T any](t *Tape, st int, vs ...T) T { return vs[t.Choose(st, len(vs))] }

// Uint64 draws 64 bits as two values (recorded as such).
func (t *Tape) Uint64(st int) uint64 {
	hi := uint64(t.Choose(st, 1<<31))
	lo := uint64(t.Choose(st, 1<<31))
	return hi<<31 ^ lo<<1 ^ (hi >> 17)
}

// Fill fills p with bytes expanded from one tape draw.
func (t *Tape) Fill(st int, p []byte) {
	// The n-th Fill of a run differs from the others even when the draws are
	// equal (a minimised tape serves zeros): a rejection-sampling loop in the
	// code under test must not see the same bytes for ever.
	t.fills++
	x := uint64(t.Choose(st, 1<<31)) + 0x5bd1e995 + t.fills*0x9E3779B97F4A7C15
	var w uint64
	for i := range p {
		if i%8 == 0 {
			w = splitmix(&x)
		}
		p[i] = byte(w)
		w >>= 8
	}
}

func (d TapeData) String() string {
	b, _ := json.Marshal(d)
	return string(b)
}

// Total number of values in d.
func (d TapeData) Total() int {
	n := 0
	for _, v := range d {
		n += len(v)
	}
	return n
}

// Clone returns a deep copy.
func (d TapeData) Clone() TapeData {
	c := TapeData{}
	for k, v := range d {
		c[k] = append([]uint32(nil), v...)
	}
	return c
}

func streamIndex(name string) int {
	for i, n := range StreamNames {
		if n == name {
			return i
		}
	}
	panic(fmt.Sprintf("simrt: unknown stream %q", name))
}
