package simrt

import (
	"cmp"
	"iter"
	"reflect"
	"slices"
	"sort"
	"time"
)

// ---- the stash -------------------------------------------------------------------
//
// When fake time advances, several timers (time.Timer channels, context
// deadlines) may fire at the same instant. A goroutine blocked in a select on
// two of them is woken by whichever the runtime fires first, which depends on
// the runtime's timer heap (shared with real-time timers of the process) and
// is therefore not a function of the tape. The blocking Select detects such
// ties after it re-acquired the token (it polls the other receive cases),
// lets the tape choose among the simultaneously ready cases and "un-receives"
// the values it consumed from the others into this stash. Every receive that
// goes through simrt consults the stash first, so a stashed value behaves as
// if it were still at the head of its channel.

// stashed keeps the channel itself alive: the map is keyed by the channel's
// address, which the allocator could hand to a new channel if the old one
// were collected while one of its values is still stashed.
type stashed struct {
	ch   reflect.Value
	vals []reflect.Value
}

func chanKey(c reflect.Value) uintptr { return c.Pointer() }

func (s *Sim) stashPut(c reflect.Value, v reflect.Value) {
	if s.stash == nil {
		s.stash = map[uintptr]*stashed{}
	}
	k := chanKey(c)
	q := s.stash[k]
	if q == nil {
		q = &stashed{ch: c}
		s.stash[k] = q
	}
	q.vals = append(q.vals, v)
	s.stashN++
}

func (s *Sim) stashTake(c reflect.Value) (reflect.Value, bool) {
	if s.stashN == 0 {
		return reflect.Value{}, false
	}
	k := chanKey(c)
	q := s.stash[k]
	if q == nil || len(q.vals) == 0 {
		return reflect.Value{}, false
	}
	v := q.vals[0]
	q.vals = q.vals[1:]
	if len(q.vals) == 0 {
		delete(s.stash, k)
	}
	s.stashN--
	return v, true
}

func (s *Sim) stashDrop(c reflect.Value) {
	if s.stashN == 0 {
		return
	}
	k := chanKey(c)
	if q := s.stash[k]; q != nil {
		s.stashN -= len(q.vals)
		delete(s.stash, k)
	}
}

// TimerStop / TimerReset replace (*time.Timer).Stop/Reset in instrumented
// code: like the runtime (Go 1.23+ timer channels), no tick of the old timer
// setting may be received after they return, so a stashed tick is discarded.
func TimerStop(t *time.Timer) bool {
	if s := S; s != nil && s.stashN > 0 {
		s.stashDrop(reflect.ValueOf(t.C))
	}
	return t.Stop()
}

func TimerReset(t *time.Timer, d time.Duration) bool {
	if s := S; s != nil && s.stashN > 0 {
		s.stashDrop(reflect.ValueOf(t.C))
	}
	return t.Reset(d)
}

// Recv1 is `<-c` in expression position.
func Recv1[T any](site uint32, c <-chan T) T { v, _ := Recv(site, c); return v }

// Recv is `v, ok := <-c`: non-blocking attempt while holding the token, else
// release the token and block for real.
func Recv[T any](site uint32, c <-chan T) (T, bool) {
	s := S
	if s == nil {
		v, ok := <-c
		return v, ok
	}
	Yield(site)
	if s.stashN > 0 {
		if rv, ok := s.stashTake(reflect.ValueOf(c)); ok {
			v, _ := rv.Interface().(T)
			return v, true
		}
	}
	select {
	case v, ok := <-c:
		return v, ok
	default:
	}
	var v T
	var ok bool
	Block(site, "recv", func() { v, ok = <-c })
	return v, ok
}

// Send is `c <- v`.
func Send[T any](site uint32, c chan<- T, v T) {
	if S == nil {
		c <- v
		return
	}
	Yield(site)
	select {
	case c <- v:
		return
	default:
	}
	Block(site, "send", func() { c <- v })
}

// Case is one communication clause of a rewritten select.
type Case struct{ c reflect.SelectCase }

func SelRecv[T any](c <-chan T) Case {
	return Case{reflect.SelectCase{Dir: reflect.SelectRecv, Chan: reflect.ValueOf(c)}}
}

func SelSend[T any](c chan<- T, v T) Case {
	return Case{reflect.SelectCase{Dir: reflect.SelectSend, Chan: reflect.ValueOf(c), Send: reflect.ValueOf(&v).Elem()}}
}

// RecvVal recovers the typed received value of the chosen case.
func RecvVal[T any](c <-chan T, v reflect.Value) T {
	var z T
	if !v.IsValid() {
		return z
	}
	r, _ := v.Interface().(T)
	return r
}

var defCase = reflect.SelectCase{Dir: reflect.SelectDefault}

// poll tries one case without blocking (stash first for receives).
func (s *Sim) poll(c reflect.SelectCase) (reflect.Value, bool, bool) {
	if !c.Chan.IsValid() || c.Chan.IsNil() {
		return reflect.Value{}, false, false
	}
	if c.Dir == reflect.SelectRecv && s.stashN > 0 {
		if rv, ok := s.stashTake(c.Chan); ok {
			return rv, true, true
		}
	}
	idx, rv, ok := reflect.Select([]reflect.SelectCase{c, defCase})
	if idx != 0 {
		return reflect.Value{}, false, false
	}
	return rv, ok, true
}

// Select replaces a select statement: the ready case is chosen by the tape
// (polling order is a tape-chosen rotation), and only if none is ready and
// there is no default does the task block in reflect.Select with the token
// released. Returns -1 for default.
func Select(site uint32, hasDefault bool, cases ...Case) (int, reflect.Value, bool) {
	s := S
	n := len(cases)
	if s == nil {
		cs := make([]reflect.SelectCase, n, n+1)
		for i := range cases {
			cs[i] = cases[i].c
		}
		if hasDefault {
			cs = append(cs, defCase)
		}
		idx, rv, ok := reflect.Select(cs)
		if hasDefault && idx == n {
			return -1, reflect.Value{}, false
		}
		return idx, rv, ok
	}
	Yield(site)
	start := 0
	if n > 1 {
		start = s.Tape.Choose(Sched, n)
	}
	for k := 0; k < n; k++ {
		i := (start + k) % n
		if rv, ok, ready := s.poll(cases[i].c); ready {
			return i, rv, ok
		}
	}
	if hasDefault {
		return -1, reflect.Value{}, false
	}
	cs := make([]reflect.SelectCase, n)
	for i := range cases {
		cs[i] = cases[i].c
	}
	var idx int
	var rv reflect.Value
	var ok bool
	timerWoken := block(site, "select", func() { idx, rv, ok = reflect.Select(cs) })
	// Token held again. Tie detection: other receive cases that became ready
	// at the same instant (see the stash comment above). Only a wake-up by the
	// fake clock can tie; a wake-up caused by another task's operation is
	// ordered by that task's execution and is final.
	if cs[idx].Dir != reflect.SelectRecv || n == 1 {
		return idx, rv, ok
	}
	if !timerWoken {
		// Woken by another task's operation: final, except when the case is a
		// receive on a closed channel. One cancel() closes the Done channels of
		// a whole context tree in the runtime's map order, so which of two
		// closed cases woke the task is not a function of the tape. Nothing was
		// consumed by such a wake-up, so evaluating the select afresh is the
		// behaviour of the same task arriving a little later: a value that is
		// ready now is taken (first in case order), otherwise the tape picks
		// among the closed cases.
		if ok {
			return idx, rv, ok
		}
		closed := []int{idx}
		for i := range cs {
			if i == idx || cs[i].Dir != reflect.SelectRecv {
				continue
			}
			if v, vok, ready := s.poll(cs[i]); ready {
				if vok {
					return i, v, vok
				}
				closed = append(closed, i)
			}
		}
		if len(closed) == 1 {
			return idx, rv, ok
		}
		sort.Ints(closed)
		s.out.Probes["simrt:select-closed-tie"]++
		i := closed[s.Tape.Choose(Sched, len(closed))]
		return i, reflect.Zero(cs[i].Chan.Type().Elem()), false
	}
	type got struct {
		i  int
		rv reflect.Value
		ok bool
	}
	ties := []got{{idx, rv, ok}}
	for i := range cs {
		if i == idx || cs[i].Dir != reflect.SelectRecv {
			continue
		}
		if v, vok, ready := s.poll(cs[i]); ready {
			ties = append(ties, got{i, v, vok})
		}
	}
	if len(ties) == 1 {
		return idx, rv, ok
	}
	sort.Slice(ties, func(a, b int) bool { return ties[a].i < ties[b].i })
	pick := s.Tape.Choose(Sched, len(ties))
	for k, g := range ties {
		if k != pick && g.ok {
			s.stashPut(cs[g.i].Chan, g.rv) // un-receive; closed channels stay ready by themselves
		}
	}
	s.out.Probes["simrt:select-tie"]++
	return ties[pick].i, ties[pick].rv, ties[pick].ok
}

// RangeChan is `for v := range c`.
func RangeChan[T any](site uint32, c <-chan T) iter.Seq[T] {
	return func(yield func(T) bool) {
		for {
			v, ok := Recv(site, c)
			if !ok || !yield(v) {
				return
			}
		}
	}
}

// MapSeq iterates a map in key order (removes the runtime's random order).
func MapSeq[M ~map[K]V, K cmp.Ordered, V any](m M) iter.Seq2[K, V] {
	return func(yield func(K, V) bool) {
		keys := make([]K, 0, len(m))
		for k := range m {
			keys = append(keys, k)
		}
		slices.Sort(keys)
		// Go's map order is random: the start of the iteration is a tape
		// decision (rotation of the sorted keys), 0 = sorted order.
		if s := S; s != nil && len(keys) > 1 {
			r := s.Tape.Choose(Sched, len(keys))
			keys = append(keys[r:], keys[:r]...)
		}
		for _, k := range keys {
			v, ok := m[k]
			if !ok {
				continue
			}
			if !yield(k, v) {
				return
			}
		}
	}
}

// MapSeqFunc iterates a map whose keys are not cmp.Ordered, ordered by the
// string form produced by key.
func MapSeqFunc[M ~map[K]V, K comparable, V any](m M, key func(K) string) iter.Seq2[K, V] {
	return func(yield func(K, V) bool) {
		keys := make([]K, 0, len(m))
		for k := range m {
			keys = append(keys, k)
		}
		slices.SortFunc(keys, func(a, b K) int { return cmp.Compare(key(a), key(b)) })
		for _, k := range keys {
			v, ok := m[k]
			if !ok {
				continue
			}
			if !yield(k, v) {
				return
			}
		}
	}
}

// WaitUntil blocks the calling task until cond() holds, polling on a fine
// simulated-time grid (harness use only).
func WaitUntil(step time.Duration, limit time.Duration, cond func() bool) bool {
	deadline := Now() + limit
	for !cond() {
		if Now() >= deadline {
			return false
		}
		Sleep(0, step)
	}
	return true
}

// tapeReader expands the tape's "rand" stream into bytes.
type tapeReader struct{ t *Tape }

func (r tapeReader) Read(p []byte) (int, error) { r.t.Fill(Rand, p); return len(p), nil }

// DefaultRand is consulted by gotd/td's crypto.DefaultRand (hook inserted by
// the instrumenter): inside a simulation every "default entropy" read comes
// from the run's tape; outside it returns nil (real crypto/rand is used).
func DefaultRand() interface{ Read([]byte) (int, error) } {
	if s := S; s != nil {
		return tapeReader{s.Tape}
	}
	return nil
}
