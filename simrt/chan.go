package simrt

import (
	"cmp"
	"iter"
	"reflect"
	"slices"
	"time"
)

// Recv1 is `<-c` in expression position.
func Recv1[T any](site uint32, c <-chan T) T { v, _ := Recv(site, c); return v }

// Recv is `v, ok := <-c`: non-blocking attempt while holding the token, else
// release the token and block for real.
func Recv[T any](site uint32, c <-chan T) (T, bool) {
	if S == nil {
		v, ok := <-c
		return v, ok
	}
	Yield(site)
	select {
	case v, ok := <-c:
		return v, ok
	default:
	}
	var v T
	var ok bool
	Block(site, "recv", func() { v, ok = <-c })
	return v, ok
}

// Send is `c <- v`.
func Send[T any](site uint32, c chan<- T, v T) {
	if S == nil {
		c <- v
		return
	}
	Yield(site)
	select {
	case c <- v:
		return
	default:
	}
	Block(site, "send", func() { c <- v })
}

// Case is one communication clause of a rewritten select.
type Case struct{ c reflect.SelectCase }

func SelRecv[T any](c <-chan T) Case {
	return Case{reflect.SelectCase{Dir: reflect.SelectRecv, Chan: reflect.ValueOf(c)}}
}

func SelSend[T any](c chan<- T, v T) Case {
	return Case{reflect.SelectCase{Dir: reflect.SelectSend, Chan: reflect.ValueOf(c), Send: reflect.ValueOf(&v).Elem()}}
}

// RecvVal recovers the typed received value of the chosen case.
func RecvVal[T any](c <-chan T, v reflect.Value) T {
	var z T
	if !v.IsValid() {
		return z
	}
	r, _ := v.Interface().(T)
	return r
}

var defCase = reflect.SelectCase{Dir: reflect.SelectDefault}

// Select replaces a select statement: the ready case is chosen by the tape
// (polling order is a tape-chosen rotation), and only if none is ready and
// there is no default does the task block in reflect.Select with the token
// released. Returns -1 for default.
func Select(site uint32, hasDefault bool, cases ...Case) (int, reflect.Value, bool) {
	s := S
	n := len(cases)
	if s == nil {
		cs := make([]reflect.SelectCase, n, n+1)
		for i := range cases {
			cs[i] = cases[i].c
		}
		if hasDefault {
			cs = append(cs, defCase)
		}
		idx, rv, ok := reflect.Select(cs)
		if hasDefault && idx == n {
			return -1, reflect.Value{}, false
		}
		return idx, rv, ok
	}
	Yield(site)
	start := 0
	if n > 1 {
		start = s.Tape.Choose(Sched, n)
	}
	var two [2]reflect.SelectCase
	two[1] = defCase
	for k := 0; k < n; k++ {
		i := (start + k) % n
		ch := cases[i].c.Chan
		if !ch.IsValid() || ch.IsNil() {
			continue
		}
		two[0] = cases[i].c
		idx, rv, ok := reflect.Select(two[:])
		if idx == 0 {
			return i, rv, ok
		}
	}
	if hasDefault {
		return -1, reflect.Value{}, false
	}
	cs := make([]reflect.SelectCase, n)
	for i := range cases {
		cs[i] = cases[i].c
	}
	var idx int
	var rv reflect.Value
	var ok bool
	Block(site, "select", func() { idx, rv, ok = reflect.Select(cs) })
	return idx, rv, ok
}

// RangeChan is `for v := range c`.
func RangeChan[T any](site uint32, c <-chan T) iter.Seq[T] {
	return func(yield func(T) bool) {
		for {
			v, ok := Recv(site, c)
			if !ok || !yield(v) {
				return
			}
		}
	}
}

// MapSeq iterates a map in key order (removes the runtime's random order).
func MapSeq[M ~map[K]V, K cmp.Ordered, V any](m M) iter.Seq2[K, V] {
	return func(yield func(K, V) bool) {
		keys := make([]K, 0, len(m))
		for k := range m {
			keys = append(keys, k)
		}
		slices.Sort(keys)
		// Go's map order is random: the start of the iteration is a tape
		// decision (rotation of the sorted keys), 0 = sorted order.
		if s := S; s != nil && len(keys) > 1 {
			r := s.Tape.Choose(Sched, len(keys))
			keys = append(keys[r:], keys[:r]...)
		}
		for _, k := range keys {
			v, ok := m[k]
			if !ok {
				continue
			}
			if !yield(k, v) {
				return
			}
		}
	}
}

// MapSeqFunc iterates a map whose keys are not cmp.Ordered, ordered by the
// string form produced by key.
func MapSeqFunc[M ~map[K]V, K comparable, V any](m M, key func(K) string) iter.Seq2[K, V] {
	return func(yield func(K, V) bool) {
		keys := make([]K, 0, len(m))
		for k := range m {
			keys = append(keys, k)
		}
		slices.SortFunc(keys, func(a, b K) int { return cmp.Compare(key(a), key(b)) })
		for _, k := range keys {
			v, ok := m[k]
			if !ok {
				continue
			}
			if !yield(k, v) {
				return
			}
		}
	}
}

// After is a token-aware time.After for harness code: it must be consumed
// with Recv/Select.
func After(d time.Duration) <-chan time.Time { return time.After(d) }

// WaitUntil blocks the calling task until cond() holds, polling on a fine
// simulated-time grid (harness use only).
func WaitUntil(step time.Duration, limit time.Duration, cond func() bool) bool {
	deadline := Now() + limit
	for !cond() {
		if Now() >= deadline {
			return false
		}
		Sleep(0, step)
	}
	return true
}

// tapeReader expands the tape's "rand" stream into bytes.
type tapeReader struct{ t *Tape }

func (r tapeReader) Read(p []byte) (int, error) { r.t.Fill(Rand, p); return len(p), nil }

// DefaultRand is consulted by gotd/td's crypto.DefaultRand (hook inserted by
// the instrumenter): inside a simulation every "default entropy" read comes
// from the run's tape; outside it returns nil (real crypto/rand is used).
func DefaultRand() interface{ Read([]byte) (int, error) } {
	if s := S; s != nil {
		return tapeReader{s.Tape}
	}
	return nil
}
