// Command check is the orchestrator of one property check:
//
//	check <property> quick|thorough
//	check <property> replay <file>
//	check selftest [world...]
//
// It instruments /repo's current working tree (cmd/instrument → overlay),
// builds the world's test binary, runs it in parallel worker processes for the
// tier's budget, confirms violations by replaying the minimised tape in a
// fresh process, matches known findings and writes /verif/evidence/<id>.json.
// Exit 0: held on everything explored; 1: VIOLATION line printed; 2: harness
// trouble (build failure, watchdog, nondeterminism, non-reproducible).
package main

import (
	"crypto/sha256"
	"encoding/json"
	"fmt"
	"os"
	"os/exec"
	"path/filepath"
	"sort"
	"strconv"
	"strings"
	"sync"
	"time"

	"verif/dst"
)

var verifDir = "/verif"

// targets instrumented for every world.
var targets = []string{
	"github.com/gotd/td/rpc", "github.com/gotd/td/pool", "github.com/gotd/td/tdsync", "github.com/gotd/td/syncio",
	"github.com/gotd/td/bin", "github.com/gotd/td/clock", "github.com/gotd/td/crypto", "github.com/gotd/td/mtproto", "github.com/gotd/td/mtproto/salts", "github.com/gotd/td/exchange",
	"github.com/gotd/td/transport", "github.com/gotd/td/proto", "github.com/gotd/td/proto/codec",
	"github.com/gotd/td/mtproxy", "github.com/gotd/td/mtproxy/obfuscator", "github.com/gotd/td/mtproxy/obfuscated2", "github.com/gotd/td/mtproxy/faketls",
	"github.com/gotd/td/telegram", "github.com/gotd/td/telegram/internal/manager", "github.com/gotd/td/telegram/dcs",
	"github.com/gotd/td/telegram/updates", "github.com/gotd/td/telegram/uploader", "github.com/gotd/td/telegram/downloader",
	"github.com/gotd/td/session", "github.com/gotd/td/tgtest", "github.com/gotd/td/tgtest/cluster",
	"github.com/gotd/td/tgerr", "github.com/gotd/td/tgtest/services", "github.com/gotd/td/tgtest/services/config",
	"github.com/gotd/td/tgtest/services/file", "github.com/gotd/td/tgtest/services/messages", "github.com/gotd/td/telegram/internal/version",
	"golang.org/x/sync/errgroup", "golang.org/x/sync/singleflight", "github.com/cenkalti/backoff/v4",
}

func die(code int, format string, args ...any) {
	fmt.Fprintf(os.Stderr, "check: "+format+"\n", args...)
	os.Exit(code)
}

func goEnv() []string {
	env := os.Environ()
	out := env[:0:0]
	for _, e := range env {
		if strings.HasPrefix(e, "GOFLAGS=") || strings.HasPrefix(e, "GOPROXY=") || strings.HasPrefix(e, "GOSUMDB=") || strings.HasPrefix(e, "GOTOOLCHAIN=") {
			continue
		}
		out = append(out, e)
	}
	// GOSUMDB must stay unset: "off" breaks the offline toolchain switch.
	return append(out, "GOFLAGS=-mod=mod", "GOPROXY=off", "GOTOOLCHAIN=auto")
}

func run(dir string, env []string, name string, args ...string) (string, error) {
	cmd := exec.Command(name, args...)
	cmd.Dir = dir
	cmd.Env = env
	b, err := cmd.CombinedOutput()
	return string(b), err
}

func repoID() string {
	head, _ := run("/repo", os.Environ(), "git", "rev-parse", "--short", "HEAD")
	diff, _ := run("/repo", os.Environ(), "git", "diff", "HEAD", "--", ".", ":!telegram/uploader/testdata/video.mp4")
	id := strings.TrimSpace(head)
	if strings.TrimSpace(diff) != "" {
		id += fmt.Sprintf("+dirty:%x", sha256.Sum256([]byte(diff)))[:len(id)+19]
	}
	return id
}

type build struct {
	scratch string
	genDir  string
	bins    map[string]string
	sites   string
}

func prepare(worlds []string) *build {
	base := os.Getenv("VERIF_SCRATCH")
	if base == "" {
		base = "/var/tmp/verif-scratch"
	}
	b := &build{scratch: filepath.Join(base, fmt.Sprintf("run-%d", os.Getpid())), bins: map[string]string{}}
	b.genDir = filepath.Join(b.scratch, "gen")
	if err := os.MkdirAll(b.genDir, 0o755); err != nil {
		die(2, "%v", err)
	}
	env := goEnv()
	t0 := time.Now()
	instr := filepath.Join(b.scratch, "instrument")
	if out, err := run(verifDir, env, "go", "build", "-o", instr, "./cmd/instrument"); err != nil {
		b.cleanup()
		die(2, "building instrumenter failed:\n%s", out)
	}
	args := append([]string{"-out", b.genDir, "-add", filepath.Join(verifDir, "overlay_add")}, targets...)
	if out, err := run(verifDir, env, instr, args...); err != nil {
		b.cleanup()
		die(2, "instrumenting /repo failed (build trouble, not a verdict):\n%s", out)
	}
	b.sites = filepath.Join(b.genDir, "sites.json")
	var wg sync.WaitGroup
	var mu sync.Mutex
	var failed []string
	for _, w := range worlds {
		bin := filepath.Join(b.scratch, w+".test")
		b.bins[w] = bin
		wg.Add(1)
		go func(w, bin string) {
			defer wg.Done()
			out, err := run(verifDir, env, "go", "test", "-c", "-tags", "verif", "-overlay", filepath.Join(b.genDir, "overlay.json"), "-o", bin, "./worlds/"+w)
			if err != nil {
				mu.Lock()
				failed = append(failed, fmt.Sprintf("world %s:\n%s", w, out))
				mu.Unlock()
			}
		}(w, bin)
	}
	wg.Wait()
	if len(failed) > 0 {
		b.cleanup()
		die(2, "building instrumented worlds from /repo failed (build trouble, not a verdict):\n%s", strings.Join(failed, "\n"))
	}
	fmt.Fprintf(os.Stderr, "check: instrumented and built %v in %.1fs\n", worlds, time.Since(t0).Seconds())
	return b
}

func (b *build) cleanup() {
	if os.Getenv("VERIF_KEEP") == "" {
		os.RemoveAll(b.scratch)
	}
}

type workerJob struct {
	world  string
	worker int
	first  int
}

func workerEnv(prop, tier string, extra ...string) []string {
	env := append(os.Environ(), "GOMAXPROCS="+envOr("VERIF_GOMAXPROCS", "1"), "GOTRACEBACK=all",
		"VERIF_PROP="+prop, "VERIF_TIER="+tier, "VERIF_KNOWN="+filepath.Join(verifDir, "KNOWN_FINDINGS"))
	return append(env, extra...)
}

func envOr(k, d string) string {
	if v := os.Getenv(k); v != "" {
		return v
	}
	return d
}

func main() {
	if len(os.Args) < 2 {
		die(2, "usage: check <property> quick|thorough | check <property> replay <file> | check selftest [world...]")
	}
	if os.Args[1] == "selftest" {
		selftest(os.Args[2:])
		return
	}
	if len(os.Args) < 3 {
		die(2, "usage: check <property> quick|thorough|replay <file>")
	}
	prop := os.Args[1]
	def, ok := props[prop]
	if !ok {
		die(2, "unknown or unclaimed property %q", prop)
	}
	switch os.Args[2] {
	case "quick", "thorough":
		check(prop, def, os.Args[2])
	case "replay":
		if len(os.Args) < 4 {
			die(2, "replay needs a file")
		}
		replay(prop, def, os.Args[3])
	default:
		die(2, "unknown mode %q", os.Args[2])
	}
}

func replay(prop string, def propDef, path string) {
	b, err := os.ReadFile(path)
	if err != nil {
		die(2, "%v", err)
	}
	var rf dst.ReplayFile
	if err := json.Unmarshal(b, &rf); err != nil {
		die(2, "%v", err)
	}
	bld := prepare([]string{rf.World})
	defer bld.cleanup()
	res, out := replayIn(bld, prop, rf.World, path)
	if res == nil {
		bld.cleanup()
		die(2, "replay process failed:\n%s", out)
	}
	for _, l := range res.Trace {
		fmt.Println(l)
	}
	fmt.Printf("digest %s (second execution %s)\n", res.Digest, res.Digest2)
	if res.HarnessErr != "" {
		bld.cleanup()
		die(2, "harness error during replay: %s", res.HarnessErr)
	}
	if res.Reproduced {
		for _, v := range res.Violations {
			if v.Prop == prop {
				fmt.Printf("violation: %s: %s\n", v.Rule, v.Msg)
			}
		}
		abs, _ := filepath.Abs(path)
		fmt.Printf("VIOLATION property=%s replay=%s\n", prop, abs)
		bld.cleanup()
		os.Exit(1)
	}
	fmt.Printf("replay of %s did not reproduce a %s violation on this tree\n", path, prop)
}

func replayIn(bld *build, prop, world, path string) (*dst.ReplayResult, string) {
	outFile := filepath.Join(bld.scratch, fmt.Sprintf("replay-%d.json", time.Now().UnixNano()))
	env := workerEnv(prop, "", "VERIF_MODE=replay", "VERIF_REPLAY="+path, "VERIF_OUT="+outFile, "VERIF_SITES="+bld.sites)
	out, err := run(verifDir, env, bld.bins[world], "-test.run", "^TestWorker$", "-test.timeout", "0")
	b, rerr := os.ReadFile(outFile)
	if rerr != nil {
		return nil, fmt.Sprintf("%v\n%s", err, out)
	}
	var res dst.ReplayResult
	if err := json.Unmarshal(b, &res); err != nil {
		return nil, err.Error()
	}
	return &res, out
}

func check(prop string, def propDef, tier string) {
	start := time.Now()
	seed := uint64(1)
	if v := os.Getenv("VERIF_SEED"); v != "" {
		if n, err := strconv.ParseInt(v, 10, 64); err == nil {
			seed = uint64(n)
		} else if n, err := strconv.ParseUint(v, 10, 64); err == nil {
			seed = n
		}
	} else if tier == "thorough" {
		seed = uint64(time.Now().UnixNano())
	}
	fmt.Printf("VERIF_SEED=%d property=%s tier=%s world=%s\n", seed, prop, tier, strings.Join(def.Worlds, ","))
	budget := def.QuickS
	if budget == 0 {
		budget = 30
	}
	if tier == "thorough" {
		budget = def.ThoroughS
		if budget == 0 {
			budget = 900
		}
	}
	if v := os.Getenv("VERIF_BUDGET_S"); v != "" {
		if n, err := strconv.Atoi(v); err == nil {
			budget = n
		}
	}
	workers := 16
	if v := os.Getenv("VERIF_WORKERS"); v != "" {
		if n, err := strconv.Atoi(v); err == nil && n > 0 {
			workers = n
		}
	}
	bld := prepare(def.Worlds)
	defer bld.cleanup()
	replayTmp := filepath.Join(bld.scratch, "replays")
	os.MkdirAll(replayTmp, 0o755)
	repo := repoID()

	// split workers between the property's worlds
	var jobs []workerJob
	for i := 0; i < workers; i++ {
		jobs = append(jobs, workerJob{world: def.Worlds[i%len(def.Worlds)], worker: i})
	}
	deadline := time.Now().Add(time.Duration(budget) * time.Second)
	var mu sync.Mutex
	var results []*dst.WorkerResult
	var harness []string
	var wg sync.WaitGroup
	shrinkMS := 20000
	if tier == "thorough" {
		shrinkMS = 120000
	}
	for _, j := range jobs {
		wg.Add(1)
		go func(j workerJob) {
			defer wg.Done()
			first := 0
			for round := 0; ; round++ {
				left := time.Until(deadline)
				if left < 200*time.Millisecond {
					return
				}
				outFile := filepath.Join(bld.scratch, fmt.Sprintf("w%d-%d.json", j.worker, round))
				env := workerEnv(prop, tier, "VERIF_MODE=run", fmt.Sprintf("VERIF_SEED=%d", seed), fmt.Sprintf("VERIF_WORKER=%d", j.worker),
					fmt.Sprintf("VERIF_FIRST=%d", first), fmt.Sprintf("VERIF_BUDGET_MS=%d", left.Milliseconds()), fmt.Sprintf("VERIF_SHRINK_MS=%d", shrinkMS),
					"VERIF_OUT="+outFile, "VERIF_REPLAY_DIR="+replayTmp, "VERIF_REPO_ID="+repo, "VERIF_SITES="+bld.sites)
				cmd := exec.Command("/bin/sh", "-c", "ulimit -v 8388608; exec \"$0\" -test.run '^TestWorker$' -test.timeout 0", bld.bins[j.world])
				cmd.Dir = verifDir
				cmd.Env = env
				out, err := cmd.CombinedOutput()
				b, rerr := os.ReadFile(outFile)
				var res dst.WorkerResult
				if rerr != nil || json.Unmarshal(b, &res) != nil {
					mu.Lock()
					harness = append(harness, fmt.Sprintf("worker %d (%s) died without a result: %v\n%s", j.worker, j.world, err, tail(string(out), 6000)))
					mu.Unlock()
					return
				}
				mu.Lock()
				results = append(results, &res)
				if res.HarnessErr != "" {
					harness = append(harness, fmt.Sprintf("worker %d (%s): %s", j.worker, j.world, res.HarnessErr))
				}
				mu.Unlock()
				if res.HarnessErr != "" || len(res.Violations) > 0 || !res.Recycle {
					return
				}
				first = res.NextRun
			}
		}(j)
	}
	wg.Wait()

	agg := aggregate(results)
	findings, ferr := dst.LoadFindings(filepath.Join(verifDir, "KNOWN_FINDINGS"))
	if ferr != nil {
		harness = append(harness, ferr.Error())
	}

	// confirm violations in a fresh process
	var confirmed []dst.ViolationRecord
	seen := map[string]bool{}
	for _, r := range results {
		for _, v := range r.Violations {
			key := v.Rule + "|" + v.Sig
			if seen[key] {
				continue
			}
			seen[key] = true
			if v.Replay == "" {
				harness = append(harness, fmt.Sprintf("violation %s without replay file", v.Rule))
				continue
			}
			res, out := replayIn(bld, prop, r.World, v.Replay)
			if res == nil || res.HarnessErr != "" {
				harness = append(harness, fmt.Sprintf("replay of %s failed: %s", v.Replay, out))
				continue
			}
			if !res.Reproduced || res.Digest != res.Digest2 {
				harness = append(harness, fmt.Sprintf("NON-REPRODUCIBLE: %s %s (seed %d) did not replay in a fresh process (reproduced=%v digests %s/%s); not reported as a violation; replayed in the finding process: %v; panic stack of the original run:\n%s", v.Rule, v.Msg, v.Seed, res.Reproduced, res.Digest, res.Digest2, v.ReplayOK, v.Panic))
				continue
			}
			dstPath := filepath.Join(verifDir, "replays", filepath.Base(v.Replay))
			os.MkdirAll(filepath.Dir(dstPath), 0o755)
			if b, err := os.ReadFile(v.Replay); err == nil {
				os.WriteFile(dstPath, b, 0o644)
			}
			v.Replay = dstPath
			confirmed = append(confirmed, v)
		}
	}

	wall := time.Since(start).Seconds()
	writeEvidence(prop, def, tier, seed, agg, confirmed, findings, harness, wall, repo)

	for _, f := range findings {
		if f.Status == "finding" && f.Property == prop {
			n := agg.Known[f.Property+"|"+f.Rule+"|"+f.Sig]
			fmt.Printf("KNOWN-FINDING: property=%s %s [rule %s; sig %q; re-observed in %d runs of this check]\n", prop, f.What, f.Rule, f.Sig, n)
		}
	}
	fmt.Printf("runs=%d non_trivial=%d distinct=%d sim=%.0fs wall=%.1fs stuck=%d step_limited=%d faults=%v\n",
		agg.Runs, agg.NonTrivial, agg.Distinct, agg.SimSeconds, wall, agg.Stuck, agg.StepLimited, compact(agg.Faults))
	if len(agg.OtherProps) > 0 {
		fmt.Printf("note: violations of other properties seen in the same world (decided by their own checks): %v\n", compact(agg.OtherProps))
	}
	for _, v := range confirmed {
		fmt.Printf("violation: %s: %s\n", v.Rule, v.Msg)
		fmt.Printf("VIOLATION property=%s replay=%s\n", prop, v.Replay)
	}
	if len(harness) > 0 {
		for _, h := range harness {
			fmt.Fprintf(os.Stderr, "check: HARNESS: %s\n", h)
		}
		if len(confirmed) == 0 {
			bld.cleanup()
			os.Exit(2)
		}
	}
	if len(confirmed) > 0 {
		bld.cleanup()
		os.Exit(1)
	}
	if agg.Runs == 0 {
		bld.cleanup()
		die(2, "no runs executed")
	}
}

func tail(s string, n int) string {
	if len(s) > n {
		return "..." + s[len(s)-n:]
	}
	return s
}

func compact(m map[string]int) string {
	var ks []string
	for k := range m {
		ks = append(ks, k)
	}
	sort.Strings(ks)
	var sb strings.Builder
	for i, k := range ks {
		if i > 0 {
			sb.WriteString(" ")
		}
		fmt.Fprintf(&sb, "%s=%d", k, m[k])
	}
	return sb.String()
}

type aggregateResult struct {
	Runs, NonTrivial, Distinct, Stuck, StepLimited, Recheck int
	SimSeconds                                              float64
	Steps, Yields, Switches, Preemptions                    int64
	Faults, Probes, Known, OtherProps, Policies             map[string]int
	Samples                                                 []dst.Sample
	Real, Stub                                              []string
	Worlds                                                  map[string]int
}

func aggregate(rs []*dst.WorkerResult) *aggregateResult {
	a := &aggregateResult{Faults: map[string]int{}, Probes: map[string]int{}, Known: map[string]int{}, OtherProps: map[string]int{}, Policies: map[string]int{}, Worlds: map[string]int{}}
	fps := map[uint64]struct{}{}
	realSet, stubSet := map[string]bool{}, map[string]bool{}
	for _, r := range rs {
		a.Runs += r.Runs
		a.Worlds[r.World] += r.Runs
		a.NonTrivial += r.NonTrivial
		a.Stuck += r.Stuck
		a.StepLimited += r.StepLimited
		a.Recheck += r.Recheck
		a.SimSeconds += r.SimSeconds
		a.Steps += r.Steps
		a.Yields += r.Yields
		a.Switches += r.Switches
		a.Preemptions += r.Preemptions
		for _, fp := range r.Fingerprints {
			fps[fp^nameHash(r.World)] = struct{}{}
		}
		for k, v := range r.Faults {
			a.Faults[k] += v
		}
		for k, v := range r.Probes {
			a.Probes[k] += v
		}
		for k, v := range r.Known {
			a.Known[k] += v
		}
		for k, v := range r.OtherProps {
			a.OtherProps[k] += v
		}
		for k, v := range r.Policies {
			a.Policies[k] += v
		}
		if len(a.Samples) < 3 {
			for _, s := range r.Samples {
				if len(a.Samples) < 3 {
					a.Samples = append(a.Samples, s)
				}
			}
		}
		for _, x := range r.Real {
			if !realSet[x] {
				realSet[x] = true
				a.Real = append(a.Real, x)
			}
		}
		for _, x := range r.Stub {
			if !stubSet[x] {
				stubSet[x] = true
				a.Stub = append(a.Stub, x)
			}
		}
	}
	a.Distinct = len(fps)
	return a
}

func nameHash(s string) uint64 {
	var h uint64 = 14695981039346656037
	for i := 0; i < len(s); i++ {
		h = (h ^ uint64(s[i])) * 0x100000001b3
	}
	return h
}

func writeEvidence(prop string, def propDef, tier string, seed uint64, a *aggregateResult, viol []dst.ViolationRecord, findings []dst.Finding, harness []string, wall float64, repo string) {
	samples := []any{}
	for _, s := range a.Samples {
		samples = append(samples, s)
	}
	for _, v := range viol {
		samples = append(samples, map[string]any{"violation": v.Rule, "msg": v.Msg, "replay": v.Replay, "seed": v.Seed, "tape_len": v.TapeLen, "minimised_tape_len": v.ShrunkLen})
	}
	if len(samples) == 0 {
		samples = append(samples, "no non-trivial run recorded")
	}
	known := []string{}
	for _, f := range findings {
		if f.Status == "finding" && f.Property == prop {
			known = append(known, fmt.Sprintf("%s sig=%q re-observed=%d", f.Rule, f.Sig, a.Known[f.Property+"|"+f.Rule+"|"+f.Sig]))
		}
	}
	runsPerHour := 0.0
	if wall > 0 {
		runsPerHour = float64(a.Runs) / wall * 3600
	}
	cov := map[string]any{
		"evaluations":         a.Runs,
		"distinct_nontrivial": a.Distinct,
		"rule": "one evaluation = one simulated run of world(s) " + strings.Join(def.Worlds, ",") + " driven by one seed (VERIF_SEED-derived) deciding workload, configuration, every scheduling choice and every fault; " +
			"a run is non-trivial if >=2 tasks were interleaved with >=2 context switches or >=1 injected fault fired; distinct = number of distinct run fingerprints " +
			"(hash of the sequence of (yield-site, task) context switches and fired fault kinds) among non-trivial runs",
		"samples":                   samples,
		"exhaustive":                false,
		"simulated_runs":            a.Runs,
		"runs_per_hour":             runsPerHour,
		"simulated_seconds_covered": a.SimSeconds,
		"faults_fired":              a.Faults,
		"probes_hit":                a.Probes,
		"scheduler_policies":        a.Policies,
		"scheduler_steps":           a.Steps,
		"yields":                    a.Yields,
		"context_switches":          a.Switches,
		"preemptions_at_yields":     a.Preemptions,
		"runs_ending_in_deadlock":   a.Stuck,
		"runs_step_limited":         a.StepLimited,
		"determinism_rechecks":      a.Recheck,
		"runs_per_world":            a.Worlds,
		"real_code":                 a.Real,
		"stubbed":                   a.Stub,
		"known_findings":            known,
		"other_property_signals":    a.OtherProps,
		"harness_errors":            harness,
		"repo":                      repo,
	}
	ev := map[string]any{
		"property_id": prop,
		"tier":        tier,
		"seed":        int64(seed & 0x7fffffffffffffff),
		"level":       def.Level,
		"coverage":    cov,
		"assumptions": append([]string{
			"sampling, not proof: a clean batch is evidence only",
			"the instrumented build (go -overlay from cmd/instrument) preserves the semantics of the rewritten constructs (select/chan/go/sync/map-range)",
			"environment stubs listed under coverage.stubbed behave like their real counterparts within the fault model",
		}, def.Assumptions...),
		"wall_s":     wall,
		"violations": len(viol),
	}
	b, _ := json.MarshalIndent(ev, "", " ")
	os.MkdirAll(filepath.Join(verifDir, "evidence"), 0o755)
	if err := os.WriteFile(filepath.Join(verifDir, "evidence", prop+".json"), b, 0o644); err != nil {
		fmt.Fprintf(os.Stderr, "check: cannot write evidence: %v\n", err)
	}
}

// selftest proves determinism: the same seeds in separate processes at
// GOMAXPROCS 1, 4 and 16 must give identical event-log digests.
func selftest(ws []string) {
	if len(ws) == 0 {
		set := map[string]bool{}
		for _, d := range props {
			for _, w := range d.Worlds {
				if !set[w] {
					set[w] = true
					ws = append(ws, w)
				}
			}
		}
		sort.Strings(ws)
	}
	n := envOr("VERIF_SELFTEST_SEEDS", "40")
	reps := 3
	if v, err := strconv.Atoi(envOr("VERIF_SELFTEST_REPS", "3")); err == nil {
		reps = v
	}
	bld := prepare(ws)
	defer bld.cleanup()
	bad := 0
	for _, w := range ws {
		var ref map[string]string
		procs := 0
		for _, gmp := range []string{"1", "4", "16"} {
			var wg sync.WaitGroup
			outs := make([]map[string]string, reps)
			for r := 0; r < reps; r++ {
				wg.Add(1)
				go func(r int) {
					defer wg.Done()
					outFile := filepath.Join(bld.scratch, fmt.Sprintf("digest-%s-%s-%d.json", w, gmp, r))
					env := append(os.Environ(), "GOMAXPROCS="+gmp, "VERIF_MODE=digest", "VERIF_SEED="+envOr("VERIF_SEED", "1"), "VERIF_MAXRUNS="+n, "VERIF_OUT="+outFile, "VERIF_TIER=quick")
					out, err := run(verifDir, env, bld.bins[w], "-test.run", "^TestWorker$", "-test.timeout", "0")
					b, rerr := os.ReadFile(outFile)
					if rerr != nil {
						fmt.Printf("selftest %s GOMAXPROCS=%s: process failed: %v\n%s\n", w, gmp, err, tail(out, 3000))
						return
					}
					m := map[string]string{}
					json.Unmarshal(b, &m)
					outs[r] = m
				}(r)
			}
			wg.Wait()
			for _, m := range outs {
				procs++
				if m == nil {
					bad++
					continue
				}
				if ref == nil {
					ref = m
					continue
				}
				for k, v := range ref {
					if m[k] != v {
						bad++
						fmt.Printf("selftest %s: seed %s digest %s vs %s (GOMAXPROCS=%s)\n", w, k, v, m[k], gmp)
					}
					if strings.HasPrefix(v, "HARNESS:") {
						bad++
						fmt.Printf("selftest %s: seed %s: %s\n", w, k, v)
					}
				}
			}
		}
		fmt.Printf("selftest %s: %d seeds x %d processes (GOMAXPROCS 1/4/16): mismatches so far %d\n", w, len(ref), procs, bad)
	}
	if bad > 0 {
		bld.cleanup()
		os.Exit(2)
	}
	fmt.Println("selftest OK")
}
