// Command instrument rewrites the concurrency constructs of selected gotd/td
// packages (from /repo's current working tree) so that they run under the
// simrt scheduler, and emits a `go build -overlay` file. /repo itself is never
// modified.
//
//	instrument -out DIR [-add DIR] pkg...
//
// -add DIR: a tree mirroring import paths below github.com/gotd/td whose
// zz_verif_*.go files are added (uninstrumented) to the matching package.
package main

import (
	"bytes"
	"encoding/json"
	"flag"
	"fmt"
	"go/ast"
	"go/format"
	"go/importer"
	"go/parser"
	"go/token"
	"go/types"
	"io"
	"os"
	"os/exec"
	"path/filepath"
	"sort"
	"strconv"
	"strings"

	"golang.org/x/tools/go/ast/astutil"
)

const (
	simrtPath   = "verif/simrt"
	simsyncPath = "verif/simsync"
	simosPath   = "verif/simos"
	tdPath      = "github.com/gotd/td"
)

// files whose "os" import is replaced by simos (disk seam, C31).
var osSwap = map[string]bool{
	"github.com/gotd/td/session/storage_file.go": true,
}

// packages in which only a named hook is inserted (no scheduling rewrite).
var hookOnly = map[string]bool{
	"github.com/gotd/td/crypto": true,
}

// packages of which only the listed files are rewritten. bin is the hot
// encode/decode package and has no concurrency of its own, but bin.Pool wraps
// a sync.Pool whose hit-or-miss (and so the capacity of the buffer a caller
// gets) must be a function of the run.
var onlyFiles = map[string]map[string]bool{
	"github.com/gotd/td/bin": {"pool.go": true},
}

type pkgInfo struct {
	ImportPath string
	Dir        string
	Export     string
	GoFiles    []string
	ImportMap  map[string]string
}

// Site describes one instrumentation point.
type Site struct {
	ID   int    `json:"id"`
	Func string `json:"func"`
	Kind string `json:"kind"`
	Ord  int    `json:"ord"` // ordinal of this kind within the function
	Pos  string `json:"pos"`
}

var (
	sites    []Site
	warnings []string
)

const firstSite = 16

func fail(format string, args ...any) {
	fmt.Fprintf(os.Stderr, "instrument: "+format+"\n", args...)
	os.Exit(2)
}

func must(err error) {
	if err != nil {
		fail("%v", err)
	}
}

func sel(pkg, name string) ast.Expr {
	return &ast.SelectorExpr{X: ast.NewIdent(pkg), Sel: ast.NewIdent(name)}
}

func call(fun ast.Expr, args ...ast.Expr) *ast.CallExpr {
	return &ast.CallExpr{Fun: fun, Args: args}
}

func main() {
	outDir := flag.String("out", "", "output directory")
	addDir := flag.String("add", "", "directory with files to add to packages")
	flag.Parse()
	targets := flag.Args()
	if *outDir == "" || len(targets) == 0 {
		fail("usage: instrument -out DIR [-add DIR] pkg...")
	}
	must(os.MkdirAll(*outDir, 0o755))

	args := append([]string{"list", "-export", "-deps", "-json=ImportPath,Dir,Export,GoFiles,ImportMap"}, targets...)
	cmd := exec.Command("go", args...)
	cmd.Stderr = os.Stderr
	out, err := cmd.Output()
	if err != nil {
		fail("go list failed: %v", err)
	}
	dec := json.NewDecoder(bytes.NewReader(out))
	pkgs := map[string]*pkgInfo{}
	for {
		var p pkgInfo
		if err := dec.Decode(&p); err == io.EOF {
			break
		} else {
			must(err)
		}
		pkgs[p.ImportPath] = &p
	}

	overlay := map[string]string{}
	for _, t := range targets {
		tp := pkgs[t]
		if tp == nil {
			fail("no package %s", t)
		}
		instrumentPackage(tp, pkgs, *outDir, overlay)
	}
	if *addDir != "" {
		root := pkgs[tdPath]
		var tdDir string
		if root != nil {
			tdDir = root.Dir
		} else {
			for ip, p := range pkgs {
				if strings.HasPrefix(ip, tdPath+"/") {
					tdDir = strings.TrimSuffix(p.Dir, strings.TrimPrefix(ip, tdPath))
					break
				}
			}
		}
		must(filepath.Walk(*addDir, func(path string, fi os.FileInfo, err error) error {
			if err != nil || fi.IsDir() || !strings.HasSuffix(path, ".go") {
				return err
			}
			rel, _ := filepath.Rel(*addDir, path)
			abs, _ := filepath.Abs(path)
			overlay[filepath.Join(tdDir, rel)] = abs
			return nil
		}))
	}
	b, _ := json.MarshalIndent(map[string]any{"Replace": overlay}, "", " ")
	must(os.WriteFile(filepath.Join(*outDir, "overlay.json"), b, 0o644))
	sb, _ := json.Marshal(sites)
	must(os.WriteFile(filepath.Join(*outDir, "sites.json"), sb, 0o644))
	sort.Strings(warnings)
	for _, w := range warnings {
		fmt.Fprintln(os.Stderr, "instrument: WARN:", w)
	}
	fmt.Printf("instrumented %d packages, %d files, %d sites\n", len(targets), len(overlay), len(sites))
}

type fileCtx struct {
	pkg      string
	fset     *token.FileSet
	info     *types.Info
	file     *ast.File
	commRecv map[ast.Node]bool
	rangeK   map[*ast.RangeStmt]string
	recv2    map[*ast.UnaryExpr]bool
	funcOf   map[ast.Node]string // func decl / lit -> name
	funcs    []funcSpan
	ordinals map[string]int
	tmp      int
	usedRT   bool
}

type funcSpan struct {
	pos, end token.Pos
	name     string
}

func (c *fileCtx) tmpName(p string) string {
	c.tmp++
	return fmt.Sprintf("_sim%s%d", p, c.tmp)
}

func (c *fileCtx) enclosing(pos token.Pos) string {
	best := ""
	var bestLen token.Pos = 1 << 30
	for _, f := range c.funcs {
		if f.pos <= pos && pos < f.end && f.end-f.pos < bestLen {
			best, bestLen = f.name, f.end-f.pos
		}
	}
	if best == "" {
		best = "init"
	}
	return best
}

func (c *fileCtx) site(pos token.Pos, kind string) ast.Expr {
	fn := c.pkg + "." + c.enclosing(pos)
	key := fn + "|" + kind
	c.ordinals[key]++
	p := c.fset.Position(pos)
	id := firstSite + len(sites)
	sites = append(sites, Site{ID: id, Func: strings.TrimPrefix(fn, tdPath+"/"), Kind: kind, Ord: c.ordinals[key], Pos: fmt.Sprintf("%s:%d", filepath.Base(p.Filename), p.Line)})
	return &ast.BasicLit{Kind: token.INT, Value: strconv.Itoa(id)}
}

func instrumentPackage(tp *pkgInfo, pkgs map[string]*pkgInfo, outDir string, overlay map[string]string) {
	fset := token.NewFileSet()
	var files []*ast.File
	for _, f := range tp.GoFiles {
		af, err := parser.ParseFile(fset, filepath.Join(tp.Dir, f), nil, parser.ParseComments)
		must(err)
		files = append(files, af)
	}
	lookup := func(path string) (io.ReadCloser, error) {
		if m, ok := tp.ImportMap[path]; ok {
			path = m
		}
		p := pkgs[path]
		if p == nil || p.Export == "" {
			return nil, fmt.Errorf("no export data for %s", path)
		}
		return os.Open(p.Export)
	}
	conf := types.Config{Importer: importer.ForCompiler(fset, "gc", lookup)}
	info := &types.Info{
		Types: map[ast.Expr]types.TypeAndValue{},
		Uses:  map[*ast.Ident]types.Object{},
		Defs:  map[*ast.Ident]types.Object{},
	}
	if _, err := conf.Check(tp.ImportPath, fset, files, info); err != nil {
		fail("type-check %s: %v", tp.ImportPath, err)
	}
	ordinals := map[string]int{}
	for i, af := range files {
		name := tp.GoFiles[i]
		c := &fileCtx{pkg: tp.ImportPath, fset: fset, info: info, file: af, ordinals: ordinals,
			commRecv: map[ast.Node]bool{}, rangeK: map[*ast.RangeStmt]string{}, recv2: map[*ast.UnaryExpr]bool{}}
		var src []byte
		if only := onlyFiles[tp.ImportPath]; only != nil && !only[name] {
			continue
		}
		if hookOnly[tp.ImportPath] {
			// only the randomness seam: crypto.DefaultRand() consults the simulation
			// ... and package-level sync state (Once, Pool, Map) that is per run
			src = c.hookDefaultRand()
			if src == nil {
				src = c.swapSyncOnly()
			}
			if src == nil {
				continue
			}
		} else {
			src = c.rewrite(osSwap[tp.ImportPath+"/"+name])
		}
		dst := filepath.Join(outDir, strings.ReplaceAll(tp.ImportPath, "/", "_")+"__"+name)
		must(os.WriteFile(dst, src, 0o644))
		overlay[filepath.Join(tp.Dir, name)] = dst
	}
}

func (c *fileCtx) isPkg(x ast.Expr, path string) bool {
	id, ok := x.(*ast.Ident)
	if !ok {
		return false
	}
	pn, ok := c.info.Uses[id].(*types.PkgName)
	return ok && pn.Imported().Path() == path
}

func (c *fileCtx) isTimerPtr(x ast.Expr) bool {
	t := c.info.TypeOf(x)
	if t == nil {
		return false
	}
	p, ok := t.(*types.Pointer)
	if !ok {
		return false
	}
	n, ok := p.Elem().(*types.Named)
	return ok && n.Obj().Pkg() != nil && n.Obj().Pkg().Path() == "time" && n.Obj().Name() == "Timer"
}

func recvName(fd *ast.FuncDecl) string {
	if fd.Recv == nil || len(fd.Recv.List) == 0 {
		return fd.Name.Name
	}
	t := fd.Recv.List[0].Type
	for {
		switch x := t.(type) {
		case *ast.StarExpr:
			t = x.X
			continue
		case *ast.IndexExpr:
			t = x.X
			continue
		case *ast.IndexListExpr:
			t = x.X
			continue
		case *ast.ParenExpr:
			t = x.X
			continue
		}
		break
	}
	if id, ok := t.(*ast.Ident); ok {
		return id.Name + "." + fd.Name.Name
	}
	return fd.Name.Name
}

func (c *fileCtx) rewrite(swapOS bool) []byte {
	f := c.file
	var header string
	for _, cg := range f.Comments {
		if cg.Pos() > f.Package {
			break
		}
		for _, cm := range cg.List {
			if strings.HasPrefix(cm.Text, "//go:build") {
				header = cm.Text + "\n\n"
			}
		}
	}
	// keep //go:embed directives (positions of untouched nodes are preserved
	// because printing uses the original FileSet); drop every other comment.
	var keep []*ast.CommentGroup
	for _, cg := range f.Comments {
		for _, cm := range cg.List {
			if strings.HasPrefix(cm.Text, "//go:linkname") {
				fail("%s: directive %q not supported by the instrumenter", c.fset.Position(cm.Pos()), cm.Text)
			}
			if strings.HasPrefix(cm.Text, "//go:embed") {
				keep = append(keep, &ast.CommentGroup{List: []*ast.Comment{cm}})
			}
		}
	}
	f.Comments = keep
	f.Doc = nil

	for _, d := range f.Decls {
		if gd, ok := d.(*ast.GenDecl); ok && len(keep) == 0 {
			gd.Doc = nil
		}
		if fd, ok := d.(*ast.FuncDecl); ok {
			fd.Doc = nil
			c.funcs = append(c.funcs, funcSpan{fd.Pos(), fd.End(), recvName(fd)})
		}
	}

	for _, im := range f.Imports {
		p, _ := strconv.Unquote(im.Path.Value)
		switch {
		case p == "sync":
			im.Path.Value = strconv.Quote(simsyncPath)
			if im.Name == nil {
				im.Name = ast.NewIdent("sync")
			}
		case p == "os" && swapOS:
			im.Path.Value = strconv.Quote(simosPath)
			if im.Name == nil {
				im.Name = ast.NewIdent("os")
			}
		}
	}

	ast.Inspect(f, func(n ast.Node) bool {
		switch n := n.(type) {
		case *ast.CommClause:
			switch cm := n.Comm.(type) {
			case *ast.SendStmt:
				c.commRecv[cm] = true
			case *ast.ExprStmt:
				c.commRecv[ast.Unparen(cm.X)] = true
			case *ast.AssignStmt:
				c.commRecv[ast.Unparen(cm.Rhs[0])] = true
			}
		case *ast.RangeStmt:
			if t := c.info.TypeOf(n.X); t != nil {
				switch t.Underlying().(type) {
				case *types.Map:
					c.rangeK[n] = "map"
				case *types.Chan:
					c.rangeK[n] = "chan"
				}
			}
		case *ast.AssignStmt:
			if len(n.Lhs) == 2 && len(n.Rhs) == 1 {
				if u, ok := ast.Unparen(n.Rhs[0]).(*ast.UnaryExpr); ok && u.Op == token.ARROW {
					c.recv2[u] = true
				}
			}
		case *ast.ValueSpec:
			if len(n.Names) == 2 && len(n.Values) == 1 {
				if u, ok := ast.Unparen(n.Values[0]).(*ast.UnaryExpr); ok && u.Op == token.ARROW {
					c.recv2[u] = true
				}
			}
		case *ast.LabeledStmt:
			if _, ok := n.Stmt.(*ast.SelectStmt); ok {
				fail("%s: labelled select not supported by the instrumenter", c.fset.Position(n.Pos()))
			}
		}
		return true
	})

	astutil.Apply(f, nil, func(cur *astutil.Cursor) bool {
		switch n := cur.Node().(type) {
		case *ast.UnaryExpr:
			if n.Op == token.ARROW && !c.commRecv[n] {
				c.usedRT = true
				fn := "Recv1"
				if c.recv2[n] {
					fn = "Recv"
				}
				cur.Replace(call(sel("simrt", fn), c.site(n.Pos(), "recv"), n.X))
			}
		case *ast.SendStmt:
			if !c.commRecv[n] {
				c.usedRT = true
				cur.Replace(&ast.ExprStmt{X: call(sel("simrt", "Send"), c.site(n.Pos(), "send"), n.Chan, n.Value)})
			}
		case *ast.SelectStmt:
			c.usedRT = true
			cur.Replace(c.rewriteSelect(n))
		case *ast.GoStmt:
			c.usedRT = true
			cur.Replace(c.rewriteGo(n))
		case *ast.RangeStmt:
			switch c.rangeK[n] {
			case "chan":
				c.usedRT = true
				n.X = call(sel("simrt", "RangeChan"), c.site(n.Pos(), "range"), n.X)
			case "map":
				c.rewriteMapRange(n)
			}
		case *ast.CallExpr:
			if s, ok := n.Fun.(*ast.SelectorExpr); ok && c.isPkg(s.X, "time") {
				switch s.Sel.Name {
				case "Sleep":
					c.usedRT = true
					n.Fun = sel("simrt", "Sleep")
					n.Args = append([]ast.Expr{c.site(n.Pos(), "sleep")}, n.Args...)
				case "AfterFunc":
					fail("%s: time.AfterFunc not supported by the instrumenter", c.fset.Position(n.Pos()))
				}
			}
			if s, ok := n.Fun.(*ast.SelectorExpr); ok && (s.Sel.Name == "Stop" || s.Sel.Name == "Reset") && c.isTimerPtr(s.X) {
				// see simrt's stash: a tick un-received after a same-instant tie
				// must not survive Stop/Reset
				c.usedRT = true
				n.Fun = sel("simrt", "Timer"+s.Sel.Name)
				n.Args = append([]ast.Expr{s.X}, n.Args...)
			}
			if s, ok := n.Fun.(*ast.SelectorExpr); ok && c.isPkg(s.X, "context") && s.Sel.Name == "AfterFunc" {
				fail("%s: context.AfterFunc not supported by the instrumenter", c.fset.Position(n.Pos()))
			}
		}
		return true
	})

	ast.Inspect(f, func(n ast.Node) bool {
		switch n := n.(type) {
		case *ast.BlockStmt:
			n.List = c.insertYields(n.List)
		case *ast.CaseClause:
			n.Body = c.insertYields(n.Body)
		case *ast.CommClause:
			n.Body = c.insertYields(n.Body)
		}
		return true
	})

	if c.usedRT {
		astutil.AddNamedImport(c.fset, f, "simrt", simrtPath)
	}
	var buf bytes.Buffer
	buf.WriteString(header)
	if err := format.Node(&buf, c.fset, f); err != nil {
		fail("%s: print: %v", c.fset.Position(f.Package).Filename, err)
	}
	return buf.Bytes()
}

// hookDefaultRand prepends `if r := simrt.DefaultRand(); r != nil { return r }`
// to func DefaultRand() io.Reader, so that code without a randomness seam
// (e.g. the padded intermediate codec) draws from the run's tape. Returns nil
// if the file does not declare DefaultRand.
func (c *fileCtx) hookDefaultRand() []byte {
	f := c.file
	found := false
	for _, d := range f.Decls {
		fd, ok := d.(*ast.FuncDecl)
		if !ok || fd.Recv != nil || fd.Name.Name != "DefaultRand" || fd.Body == nil {
			continue
		}
		found = true
		r := ast.NewIdent("_simr")
		hook := &ast.IfStmt{
			Init: &ast.AssignStmt{Lhs: []ast.Expr{r}, Tok: token.DEFINE, Rhs: []ast.Expr{call(sel("simrt", "DefaultRand"))}},
			Cond: &ast.BinaryExpr{X: r, Op: token.NEQ, Y: ast.NewIdent("nil")},
			Body: &ast.BlockStmt{List: []ast.Stmt{&ast.ReturnStmt{Results: []ast.Expr{r}}}},
		}
		fd.Body.List = append([]ast.Stmt{hook}, fd.Body.List...)
	}
	if !found {
		return nil
	}
	var header string
	for _, cg := range f.Comments {
		if cg.Pos() > f.Package {
			break
		}
		for _, cm := range cg.List {
			if strings.HasPrefix(cm.Text, "//go:build") {
				header = cm.Text + "\n\n"
			}
		}
	}
	f.Comments = nil
	f.Doc = nil
	for _, d := range f.Decls {
		switch x := d.(type) {
		case *ast.FuncDecl:
			x.Doc = nil
		case *ast.GenDecl:
			x.Doc = nil
		}
	}
	astutil.AddNamedImport(c.fset, f, "simrt", simrtPath)
	var buf bytes.Buffer
	buf.WriteString(header)
	if err := format.Node(&buf, c.fset, f); err != nil {
		fail("%s: print: %v", c.fset.Position(f.Package).Filename, err)
	}
	return buf.Bytes()
}

// swapSyncOnly rewrites nothing but the "sync" import (to simsync); nil if the
// file does not import sync.
func (c *fileCtx) swapSyncOnly() []byte {
	f := c.file
	found := false
	for _, im := range f.Imports {
		if p, _ := strconv.Unquote(im.Path.Value); p == "sync" {
			im.Path.Value = strconv.Quote(simsyncPath)
			if im.Name == nil {
				im.Name = ast.NewIdent("sync")
			}
			found = true
		}
	}
	if !found {
		return nil
	}
	var buf bytes.Buffer
	if err := format.Node(&buf, c.fset, f); err != nil {
		fail("%s: print: %v", c.fset.Position(f.Package).Filename, err)
	}
	return buf.Bytes()
}

func isSimrtCall(e ast.Expr) bool {
	ce, ok := e.(*ast.CallExpr)
	if !ok {
		return false
	}
	s, ok := ce.Fun.(*ast.SelectorExpr)
	if !ok {
		return false
	}
	id, ok := s.X.(*ast.Ident)
	return ok && id.Name == "simrt"
}

var pureBuiltins = map[string]bool{"len": true, "cap": true, "append": true, "make": true, "new": true, "copy": true, "delete": true, "panic": true, "min": true, "max": true, "recover": true, "clear": true, "close": true}

// hasCall: stmt (not descending into func literals or nested blocks) contains
// a real call (or a close), i.e. something another task could observe.
func (c *fileCtx) hasCall(s ast.Stmt) bool {
	found := false
	var visit func(n ast.Node) bool
	visit = func(n ast.Node) bool {
		if found {
			return false
		}
		switch n := n.(type) {
		case *ast.FuncLit, *ast.BlockStmt:
			return false
		case *ast.CallExpr:
			if id, ok := n.Fun.(*ast.Ident); ok && pureBuiltins[id.Name] {
				if _, isB := c.info.Uses[id].(*types.Builtin); isB {
					if id.Name == "close" {
						found = true
						return false
					}
					return true
				}
			}
			if tv, ok := c.info.Types[n.Fun]; ok && tv.IsType() {
				return true
			}
			if isSimrtCall(n) {
				return true // the wrapper yields itself
			}
			found = true
			return false
		}
		return true
	}
	switch s := s.(type) {
	case *ast.IfStmt:
		if s.Init != nil {
			ast.Inspect(s.Init, visit)
		}
		ast.Inspect(s.Cond, visit)
	case *ast.ForStmt, *ast.RangeStmt, *ast.SwitchStmt, *ast.TypeSwitchStmt, *ast.BlockStmt, *ast.LabeledStmt, *ast.DeclStmt:
		return false
	case *ast.DeferStmt, *ast.CaseClause, *ast.CommClause:
		return false
	default:
		ast.Inspect(s, visit)
	}
	return found
}

func (c *fileCtx) insertYields(list []ast.Stmt) []ast.Stmt {
	var out []ast.Stmt
	for _, s := range list {
		if c.hasCall(s) && s.Pos().IsValid() {
			c.usedRT = true
			out = append(out, &ast.ExprStmt{X: call(sel("simrt", "Yield"), c.site(s.Pos(), "yield"))})
		}
		out = append(out, s)
	}
	return out
}

func (c *fileCtx) rewriteGo(g *ast.GoStmt) ast.Stmt {
	st := c.site(g.Pos(), "go")
	if fl, ok := g.Call.Fun.(*ast.FuncLit); ok && len(g.Call.Args) == 0 {
		return &ast.ExprStmt{X: call(sel("simrt", "GoStmt"), st, fl)}
	}
	var pre []ast.Stmt
	var fnExpr ast.Expr
	if id, ok := g.Call.Fun.(*ast.Ident); ok {
		if _, isB := c.info.Uses[id].(*types.Builtin); isB {
			fnExpr = id
		}
	}
	if fnExpr == nil {
		fn := ast.NewIdent(c.tmpName("f"))
		pre = append(pre, &ast.AssignStmt{Lhs: []ast.Expr{fn}, Tok: token.DEFINE, Rhs: []ast.Expr{g.Call.Fun}})
		fnExpr = fn
	}
	var args []ast.Expr
	for _, a := range g.Call.Args {
		an := ast.NewIdent(c.tmpName("a"))
		pre = append(pre, &ast.AssignStmt{Lhs: []ast.Expr{an}, Tok: token.DEFINE, Rhs: []ast.Expr{a}})
		args = append(args, an)
	}
	inner := &ast.CallExpr{Fun: fnExpr, Args: args}
	if g.Call.Ellipsis.IsValid() {
		inner.Ellipsis = 1
	}
	lit := &ast.FuncLit{Type: &ast.FuncType{Params: &ast.FieldList{}}, Body: &ast.BlockStmt{List: []ast.Stmt{&ast.ExprStmt{X: inner}}}}
	pre = append(pre, &ast.ExprStmt{X: call(sel("simrt", "GoStmt"), st, lit)})
	return &ast.BlockStmt{List: pre}
}

func (c *fileCtx) rewriteMapRange(r *ast.RangeStmt) {
	if r.Key == nil && r.Value == nil {
		return // order cannot matter to the body through k/v; body effects are per-iteration identical
	}
	mt := c.info.TypeOf(r.X).Underlying().(*types.Map)
	if b, ok := mt.Key().Underlying().(*types.Basic); ok && b.Info()&types.IsOrdered != 0 {
		c.usedRT = true
		r.X = call(sel("simrt", "MapSeq"), r.X)
		return
	}
	warnings = append(warnings, fmt.Sprintf("%s: map range with non-ordered key %s left as is", c.fset.Position(r.Pos()), mt.Key()))
}

func (c *fileCtx) rewriteSelect(s *ast.SelectStmt) ast.Stmt {
	var pre []ast.Stmt
	var cases []ast.Expr
	hasDefault := false
	sw := &ast.SwitchStmt{Body: &ast.BlockStmt{}}
	idx := ast.NewIdent(c.tmpName("i"))
	rv := ast.NewIdent(c.tmpName("rv"))
	okv := ast.NewIdent(c.tmpName("ok"))
	usesRV, usesOK := false, false
	n := 0
	for _, cl := range s.Body.List {
		cc := cl.(*ast.CommClause)
		if cc.Comm == nil {
			hasDefault = true
			sw.Body.List = append(sw.Body.List, &ast.CaseClause{Body: cc.Body})
			continue
		}
		var body []ast.Stmt
		switch cm := cc.Comm.(type) {
		case *ast.SendStmt:
			ch := ast.NewIdent(c.tmpName("c"))
			pre = append(pre, &ast.AssignStmt{Lhs: []ast.Expr{ch}, Tok: token.DEFINE, Rhs: []ast.Expr{cm.Chan}})
			cases = append(cases, call(sel("simrt", "SelSend"), ch, cm.Value))
		case *ast.ExprStmt:
			u := ast.Unparen(cm.X).(*ast.UnaryExpr)
			ch := ast.NewIdent(c.tmpName("c"))
			pre = append(pre, &ast.AssignStmt{Lhs: []ast.Expr{ch}, Tok: token.DEFINE, Rhs: []ast.Expr{u.X}})
			cases = append(cases, call(sel("simrt", "SelRecv"), ch))
		case *ast.AssignStmt:
			u := ast.Unparen(cm.Rhs[0]).(*ast.UnaryExpr)
			ch := ast.NewIdent(c.tmpName("c"))
			pre = append(pre, &ast.AssignStmt{Lhs: []ast.Expr{ch}, Tok: token.DEFINE, Rhs: []ast.Expr{u.X}})
			cases = append(cases, call(sel("simrt", "SelRecv"), ch))
			usesRV = true
			rhs := []ast.Expr{call(sel("simrt", "RecvVal"), ch, rv)}
			if len(cm.Lhs) == 2 {
				usesOK = true
				rhs = append(rhs, okv)
			}
			body = append(body, &ast.AssignStmt{Lhs: cm.Lhs, Tok: cm.Tok, Rhs: rhs})
			if cm.Tok == token.DEFINE {
				// silence "declared and not used" exactly like select does not need to
				for _, l := range cm.Lhs {
					if id, ok := l.(*ast.Ident); ok && id.Name != "_" {
						body = append(body, &ast.AssignStmt{Lhs: []ast.Expr{ast.NewIdent("_")}, Tok: token.ASSIGN, Rhs: []ast.Expr{ast.NewIdent(id.Name)}})
					}
				}
			}
		}
		body = append(body, cc.Body...)
		sw.Body.List = append(sw.Body.List, &ast.CaseClause{
			List: []ast.Expr{&ast.BasicLit{Kind: token.INT, Value: strconv.Itoa(n)}}, Body: body})
		n++
	}
	if !hasDefault {
		sw.Body.List = append(sw.Body.List, &ast.CaseClause{Body: []ast.Stmt{
			&ast.ExprStmt{X: call(ast.NewIdent("panic"), &ast.BasicLit{Kind: token.STRING, Value: strconv.Quote("simrt: bad select index")})},
		}})
	}
	rvL, okL := ast.Expr(ast.NewIdent("_")), ast.Expr(ast.NewIdent("_"))
	if usesRV {
		rvL = rv
	}
	if usesOK {
		okL = okv
	}
	def := "false"
	if hasDefault {
		def = "true"
	}
	args := append([]ast.Expr{c.site(s.Pos(), "select"), ast.NewIdent(def)}, cases...)
	pre = append(pre, &ast.AssignStmt{Lhs: []ast.Expr{idx, rvL, okL}, Tok: token.DEFINE, Rhs: []ast.Expr{call(sel("simrt", "Select"), args...)}})
	sw.Tag = idx
	pre = append(pre, sw)
	return &ast.BlockStmt{List: pre}
}
