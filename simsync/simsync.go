// Package simsync provides cooperative replacements for the sync types, with
// the same API, whose waiters are ordinary blocked simulation tasks. (A real
// sync.Mutex does not block durably under testing/synctest and would hang
// the scheduler's Wait; and lock acquisition order must be a tape decision.)
// Outside a simulation the types still work for single-goroutine set-up code.
package simsync

import (
	"sync"

	"verif/simrt"
)

type Locker = sync.Locker

// Map is sync.Map per simulation run: entries stored by an earlier run of the
// process are gone (a package-level cache must not make a run depend on what
// ran before it), and Range visits keys in insertion order instead of the
// runtime's random one. Only one task runs at a time, so a plain map suffices.
type Map struct {
	owner *simrt.Sim
	keys  []any
	vals  map[any]any
}

func (m *Map) enter() {
	if s := simrt.S; s != nil && m.owner != s {
		m.owner, m.keys, m.vals = s, nil, nil
	}
	if m.vals == nil {
		m.vals = map[any]any{}
	}
	simrt.Yield(siteSync)
}

func (m *Map) drop(key any) {
	delete(m.vals, key)
	for i, k := range m.keys {
		if k == key {
			m.keys = append(m.keys[:i:i], m.keys[i+1:]...)
			return
		}
	}
}

func (m *Map) Load(key any) (any, bool) { m.enter(); v, ok := m.vals[key]; return v, ok }

func (m *Map) Store(key, value any) { m.Swap(key, value) }

func (m *Map) Swap(key, value any) (previous any, loaded bool) {
	m.enter()
	previous, loaded = m.vals[key]
	if !loaded {
		m.keys = append(m.keys, key)
	}
	m.vals[key] = value
	return previous, loaded
}

func (m *Map) LoadOrStore(key, value any) (actual any, loaded bool) {
	m.enter()
	if v, ok := m.vals[key]; ok {
		return v, true
	}
	m.keys = append(m.keys, key)
	m.vals[key] = value
	return value, false
}

func (m *Map) LoadAndDelete(key any) (value any, loaded bool) {
	m.enter()
	value, loaded = m.vals[key]
	if loaded {
		m.drop(key)
	}
	return value, loaded
}

func (m *Map) Delete(key any) { m.LoadAndDelete(key) }

func (m *Map) CompareAndSwap(key, old, new any) bool {
	m.enter()
	if v, ok := m.vals[key]; ok && v == old {
		m.vals[key] = new
		return true
	}
	return false
}

func (m *Map) CompareAndDelete(key, old any) bool {
	m.enter()
	if v, ok := m.vals[key]; ok && v == old {
		m.drop(key)
		return true
	}
	return false
}

func (m *Map) Range(f func(key, value any) bool) {
	m.enter()
	for _, k := range append([]any(nil), m.keys...) {
		v, ok := m.vals[k]
		if !ok {
			continue
		}
		if !f(k, v) {
			return
		}
	}
}

func (m *Map) Clear() { m.enter(); m.keys, m.vals = nil, map[any]any{} }

const siteSync = 1 // reserved site id for sync operations

// Pool is a deterministic sync.Pool: a LIFO of the values put back during the
// current simulation run. (The real pool drops values at GC and keeps them
// across runs, so hit-or-miss paths would not be a function of the tape.)
// Outside a run it never retains anything.
type Pool struct {
	New   func() any
	items []any
	owner *simrt.Sim
}

func (p *Pool) Get() any {
	if s := simrt.S; s != nil && p.owner == s && len(p.items) > 0 {
		v := p.items[len(p.items)-1]
		p.items = p.items[:len(p.items)-1]
		return v
	}
	if p.New != nil {
		return p.New()
	}
	return nil
}

func (p *Pool) Put(v any) {
	s := simrt.S
	if s == nil || v == nil {
		return
	}
	if p.owner != s {
		p.owner, p.items = s, nil
	}
	if len(p.items) < 64 {
		p.items = append(p.items, v)
	}
}

type waitq []chan struct{}

func (q *waitq) wake() {
	for _, ch := range *q {
		close(ch)
	}
	*q = nil
}

func (q *waitq) wait(reason string) {
	ch := make(chan struct{})
	*q = append(*q, ch)
	simrt.Block(siteSync, reason, func() { <-ch })
}

type Mutex struct {
	locked bool
	q      waitq
}

func (m *Mutex) Lock() {
	simrt.Yield(siteSync)
	for m.locked {
		m.q.wait("mutex")
	}
	m.locked = true
}

func (m *Mutex) TryLock() bool {
	simrt.Yield(siteSync)
	if m.locked {
		return false
	}
	m.locked = true
	return true
}

func (m *Mutex) Unlock() {
	if !m.locked {
		panic("simsync: unlock of unlocked mutex")
	}
	m.locked = false
	m.q.wake()
	simrt.Yield(siteSync)
}

type WaitGroup struct {
	n int
	q waitq
}

func (w *WaitGroup) Add(d int) {
	w.n += d
	if w.n < 0 {
		panic("simsync: negative WaitGroup counter")
	}
	if w.n == 0 {
		w.q.wake()
	}
}

func (w *WaitGroup) Done() { w.Add(-1) }

func (w *WaitGroup) Wait() {
	simrt.Yield(siteSync)
	for w.n > 0 {
		w.q.wait("waitgroup")
	}
}

func (w *WaitGroup) Go(f func()) {
	w.Add(1)
	simrt.GoStmt(siteSync, func() { defer w.Done(); f() })
}

type RWMutex struct {
	w       bool
	readers int
	q       waitq
}

func (m *RWMutex) Lock() {
	simrt.Yield(siteSync)
	for m.w || m.readers > 0 {
		m.q.wait("rwmutex-w")
	}
	m.w = true
}

func (m *RWMutex) TryLock() bool {
	if m.w || m.readers > 0 {
		return false
	}
	m.w = true
	return true
}

func (m *RWMutex) Unlock() {
	if !m.w {
		panic("simsync: unlock of unlocked rwmutex")
	}
	m.w = false
	m.q.wake()
	simrt.Yield(siteSync)
}

func (m *RWMutex) RLock() {
	simrt.Yield(siteSync)
	for m.w {
		m.q.wait("rwmutex-r")
	}
	m.readers++
}

func (m *RWMutex) TryRLock() bool {
	if m.w {
		return false
	}
	m.readers++
	return true
}

func (m *RWMutex) RUnlock() {
	if m.readers <= 0 {
		panic("simsync: runlock of unlocked rwmutex")
	}
	m.readers--
	m.q.wake()
	simrt.Yield(siteSync)
}

func (m *RWMutex) RLocker() Locker { return rlocker{m} }

type rlocker struct{ m *RWMutex }

func (r rlocker) Lock()   { r.m.RLock() }
func (r rlocker) Unlock() { r.m.RUnlock() }

// Once is sync.Once per simulation run: a package-level Once that an earlier
// run of the same process completed (or was frozen in) starts afresh, so that
// a run is a function of its tape only and not of what ran before it in the
// process. (The bodies guarded this way in the instrumented packages build
// caches and are idempotent.)
type Once struct {
	m     Mutex
	done  bool
	owner *simrt.Sim
}

func (o *Once) Do(f func()) {
	if s := simrt.S; s != nil && o.owner != s {
		o.m, o.done, o.owner = Mutex{}, false, s
	}
	if o.done {
		return
	}
	o.m.Lock()
	defer o.m.Unlock()
	if !o.done {
		defer func() { o.done = true }()
		f()
	}
}

func OnceFunc(f func()) func() {
	var o Once
	return func() { o.Do(f) }
}

func OnceValue[T any](f func() T) func() T {
	var o Once
	var v T
	return func() T { o.Do(func() { v = f() }); return v }
}

func OnceValues[T1, T2 any](f func() (T1, T2)) func() (T1, T2) {
	var o Once
	var v1 T1
	var v2 T2
	return func() (T1, T2) { o.Do(func() { v1, v2 = f() }); return v1, v2 }
}

// Cond mirrors sync.Cond.
type Cond struct {
	L Locker
	q waitq
}

func NewCond(l Locker) *Cond { return &Cond{L: l} }

func (c *Cond) Wait() {
	ch := make(chan struct{})
	c.q = append(c.q, ch)
	c.L.Unlock()
	simrt.Block(siteSync, "cond", func() { <-ch })
	c.L.Lock()
}

func (c *Cond) Signal() {
	if len(c.q) > 0 {
		close(c.q[0])
		c.q = c.q[1:]
	}
}

func (c *Cond) Broadcast() { c.q.wake() }
