// Package dst is the worker side of a check: it runs a world (one simulated
// system + oracles) for many seeds inside the world's test binary, matches
// violations against known findings, minimises and writes replay files, and
// reports coverage to the orchestrator (cmd/check).
package dst

import (
	"bufio"
	"encoding/json"
	"fmt"
	"os"
	"regexp"
	"runtime"
	"sort"
	"strconv"
	"strings"
	"sync/atomic"
	"testing"
	"time"

	"verif/simrt"
)

// Env tells a world what it is being run for.
type Env struct {
	Prop string // property under check ("" = all oracles of the world)
	Tier string // quick | thorough
}

// World is one harness.
type World struct {
	Name  string
	Props []string
	// Run performs exactly one simulated run driven by tape.
	Run func(t *testing.T, tape *simrt.Tape, env Env) *simrt.Outcome
	// Real / Stub describe which components ran real gotd/td code and which a stub.
	Real []string
	Stub []string
}

// Finding is one line of known_findings.jsonl with status "finding".
type Finding struct {
	Status   string `json:"status"` // finding | fixed
	Property string `json:"property"`
	Rule     string `json:"rule"`
	Sig      string `json:"sig"` // exact signature; "" matches nothing
	What     string `json:"what"`
	Commit   string `json:"commit,omitempty"`
}

// ViolationRecord is a violation together with its replay file.
type ViolationRecord struct {
	simrt.Violation
	Seed      uint64 `json:"seed"`
	Replay    string `json:"replay"`
	TapeLen   int    `json:"tape_len"`
	ShrunkLen int    `json:"shrunk_len"`
	ShrinkRun int    `json:"shrink_runs"`
	Panic     string `json:"panic,omitempty"` // stack of the first task panic of the original run
	ReplayOK  bool   `json:"replay_ok"`       // the recorded tape reproduced the violation in the same process
}

// Sample is a trace excerpt written into the evidence.
type Sample struct {
	Seed    uint64   `json:"seed"`
	Policy  string   `json:"policy"`
	Tasks   int      `json:"tasks"`
	Steps   int      `json:"steps"`
	Sim     string   `json:"simulated"`
	Faults  []string `json:"faults,omitempty"`
	Trace   []string `json:"trace"`
	Comment string   `json:"comment,omitempty"`
}

// WorkerResult is what one worker process reports.
type WorkerResult struct {
	World        string            `json:"world"`
	Worker       int               `json:"worker"`
	Runs         int               `json:"runs"`
	NextRun      int               `json:"next_run"`
	NonTrivial   int               `json:"non_trivial"`
	Fingerprints []uint64          `json:"fingerprints"`
	Faults       map[string]int    `json:"faults"`
	Probes       map[string]int    `json:"probes"`
	SimSeconds   float64           `json:"sim_seconds"`
	Steps        int64             `json:"steps"`
	Yields       int64             `json:"yields"`
	Switches     int64             `json:"switches"`
	Preemptions  int64             `json:"preemptions"`
	Stuck        int               `json:"stuck"`
	StepLimited  int               `json:"step_limited"`
	Policies     map[string]int    `json:"policies"`
	Violations   []ViolationRecord `json:"violations"`
	Known        map[string]int    `json:"known"` // finding key -> times re-observed
	OtherProps   map[string]int    `json:"other_props"`
	HarnessErr   string            `json:"harness_err,omitempty"`
	Recheck      int               `json:"determinism_rechecks"`
	Samples      []Sample          `json:"samples"`
	WallS        float64           `json:"wall_s"`
	Recycle      bool              `json:"recycle"`
	Real         []string          `json:"real"`
	Stub         []string          `json:"stub"`
}

// ReplayFile is the on-disk replay format (DESIGN appendix C).
type ReplayFile struct {
	Property  string         `json:"property"`
	World     string         `json:"world"`
	Rule      string         `json:"rule"`
	Sig       string         `json:"sig"`
	Tier      string         `json:"tier"`
	Seed      uint64         `json:"seed"`
	Repo      string         `json:"repo"`
	Tape      simrt.TapeData `json:"tape"`
	Violation string         `json:"violation"`
	Trace     []string       `json:"trace"`
}

func envInt(name string, def int) int {
	if v := os.Getenv(name); v != "" {
		if n, err := strconv.Atoi(v); err == nil {
			return n
		}
	}
	return def
}

func envU64(name string, def uint64) uint64 {
	if v := os.Getenv(name); v != "" {
		if n, err := strconv.ParseUint(v, 10, 64); err == nil {
			return n
		}
		if n, err := strconv.ParseInt(v, 10, 64); err == nil {
			return uint64(n)
		}
	}
	return def
}

// LoadFindings reads the known-findings file. Line formats:
//
//	# comment
//	fixed: property=<id> <commit> <what failed>
//	finding: property=<id> rule=<rule> sig="<signature>" <what fails>
//
// Only "finding:" lines suppress anything (exact rule+signature match);
// "fixed:" lines are a record and suppress nothing.
func LoadFindings(path string) ([]Finding, error) {
	f, err := os.Open(path)
	if err != nil {
		if os.IsNotExist(err) {
			return nil, nil
		}
		return nil, err
	}
	defer f.Close()
	var out []Finding
	sc := bufio.NewScanner(f)
	sc.Buffer(make([]byte, 1<<20), 1<<20)
	for sc.Scan() {
		line := strings.TrimSpace(sc.Text())
		switch {
		case line == "" || strings.HasPrefix(line, "#"):
		case strings.HasPrefix(line, "fixed: property="):
			fs := strings.Fields(strings.TrimPrefix(line, "fixed: property="))
			if len(fs) < 3 {
				return nil, fmt.Errorf("known findings: malformed line %q", line)
			}
			out = append(out, Finding{Status: "fixed", Property: fs[0], Commit: fs[1], What: strings.Join(fs[2:], " ")})
		case strings.HasPrefix(line, "finding: property="):
			m := findingRe.FindStringSubmatch(line)
			if m == nil {
				return nil, fmt.Errorf("known findings: malformed line %q", line)
			}
			out = append(out, Finding{Status: "finding", Property: m[1], Rule: m[2], Sig: m[3], What: m[4]})
		default:
			return nil, fmt.Errorf("known findings: unrecognised line %q", line)
		}
	}
	return out, sc.Err()
}

var findingRe = regexp.MustCompile(`^finding: property=(\S+) rule=(\S+) sig="([^"]*)" (.*)$`)

func findingKey(f Finding) string { return f.Property + "|" + f.Rule + "|" + f.Sig }

func matchFinding(fs []Finding, v simrt.Violation) (string, bool) {
	for _, f := range fs {
		if f.Status == "finding" && f.Property == v.Prop && f.Rule == v.Rule && f.Sig != "" && f.Sig == v.Sig {
			return findingKey(f), true
		}
	}
	return "", false
}

func nameHash(s string) uint64 {
	var h uint64 = 14695981039346656037
	for i := 0; i < len(s); i++ {
		h = (h ^ uint64(s[i])) * 0x100000001b3
	}
	return h
}

func trace(o *simrt.Outcome, max int) []string {
	ev := o.Events
	var out []string
	if len(ev) > max {
		head := max / 2
		for _, e := range ev[:head] {
			out = append(out, e.String())
		}
		out = append(out, fmt.Sprintf("... %d events elided ...", len(ev)-max))
		ev = ev[len(ev)-(max-head):]
	}
	for _, e := range ev {
		out = append(out, e.String())
	}
	return out
}

// WorkerMain is called from the TestWorker function of a world package.
func WorkerMain(t *testing.T, w World) {
	mode := os.Getenv("VERIF_MODE")
	if mode == "" {
		// plain `go test`: a tiny smoke batch so the package is testable by hand
		smoke(t, w)
		return
	}
	env := Env{Prop: os.Getenv("VERIF_PROP"), Tier: os.Getenv("VERIF_TIER")}
	if env.Tier == "" {
		env.Tier = "quick"
	}
	outPath := os.Getenv("VERIF_OUT")
	switch mode {
	case "run":
		res := runBatch(t, w, env)
		writeJSON(outPath, res)
	case "replay":
		res := replayOne(t, w, env, os.Getenv("VERIF_REPLAY"))
		writeJSON(outPath, res)
	case "digest":
		digests(t, w, env, outPath)
	case "trace":
		// debugging aid: one fresh run of the tape seeded VERIF_SEED, events printed
		seed, _ := strconv.ParseUint(os.Getenv("VERIF_SEED"), 10, 64)
		o := runGuard(t, w, simrt.NewTape(seed), env)
		for _, e := range o.Events {
			fmt.Println(e)
		}
		fmt.Printf("faults=%v probes=%v violations=%d stuck=%v harness=%q\n", o.Faults, o.Probes, len(o.Violations), o.Stuck, o.HarnessErr)
	default:
		t.Fatalf("unknown VERIF_MODE %q", mode)
	}
}

func writeJSON(path string, v any) {
	b, err := json.Marshal(v)
	if err != nil {
		panic(err)
	}
	if path == "" {
		os.Stdout.Write(append(b, '\n'))
		return
	}
	if err := os.WriteFile(path+".tmp", b, 0o644); err != nil {
		panic(err)
	}
	if err := os.Rename(path+".tmp", path); err != nil {
		panic(err)
	}
}

func smoke(t *testing.T, w World) {
	for i := 0; i < 20; i++ {
		o := w.Run(t, simrt.NewTape(uint64(i+1)), Env{Tier: "quick"})
		if o.HarnessErr != "" {
			t.Fatalf("seed %d: harness error: %s", i+1, o.HarnessErr)
		}
		for _, v := range o.Violations {
			t.Logf("seed %d: %s %s: %s", i+1, v.Prop, v.Rule, v.Msg)
		}
	}
}

// RunSeed is the seed of run i of worker wk.
func RunSeed(base uint64, world string, wk, i int) uint64 {
	return simrt.Mix(base, nameHash(world), uint64(wk), uint64(i))
}

// watchdog aborts the process (exit 2) if one run takes absurdly long in
// wall-clock time: harness trouble, never a violation.
var heartbeat atomic.Int64

func watchdog(limit time.Duration, what func() string) {
	heartbeat.Store(time.Now().UnixNano())
	go func() {
		for {
			time.Sleep(time.Second)
			if time.Since(time.Unix(0, heartbeat.Load())) > limit {
				buf := make([]byte, 1<<20)
				n := runtime.Stack(buf, true)
				fmt.Fprintf(os.Stderr, "WATCHDOG: %s exceeded %v wall-clock\n%s\n", what(), limit, buf[:n])
				os.Exit(2)
			}
		}
	}()
}

func runBatch(t *testing.T, w World, env Env) *WorkerResult {
	base := envU64("VERIF_SEED", 1)
	wk := envInt("VERIF_WORKER", 0)
	first := envInt("VERIF_FIRST", 0)
	budget := time.Duration(envInt("VERIF_BUDGET_MS", 5000)) * time.Millisecond
	maxRuns := envInt("VERIF_MAXRUNS", 1<<30)
	shrinkBudget := time.Duration(envInt("VERIF_SHRINK_MS", 30000)) * time.Millisecond
	replayDir := os.Getenv("VERIF_REPLAY_DIR")
	findings, err := LoadFindings(os.Getenv("VERIF_KNOWN"))
	res := &WorkerResult{World: w.Name, Worker: wk, Faults: map[string]int{}, Probes: map[string]int{}, Policies: map[string]int{},
		Known: map[string]int{}, OtherProps: map[string]int{}, Real: w.Real, Stub: w.Stub}
	if err != nil {
		res.HarnessErr = err.Error()
		return res
	}
	start := time.Now()
	fps := map[uint64]struct{}{}
	i := first
	var cur uint64
	watchdog(time.Duration(envInt("VERIF_RUN_WALL_S", 120))*time.Second, func() string {
		return fmt.Sprintf("world %s seed %d", w.Name, cur)
	})
	beat := func() { heartbeat.Store(time.Now().UnixNano()) }
	for ; i < first+maxRuns; i++ {
		if time.Since(start) > budget {
			break
		}
		if runtime.NumGoroutine() > envInt("VERIF_MAX_GOROUTINES", 30000) {
			res.Recycle = true
			break
		}
		seed := RunSeed(base, w.Name, wk, i)
		cur = seed
		o := runGuard(t, w, simrt.NewTape(seed), env)
		beat()
		res.Runs++
		if o.HarnessErr != "" {
			res.HarnessErr = fmt.Sprintf("seed %d: %s", seed, o.HarnessErr)
			break
		}
		if o.NonTrivial() {
			res.NonTrivial++
			fps[o.Fingerprint] = struct{}{}
			if len(res.Samples) < 2 && len(o.Events) > 0 {
				res.Samples = append(res.Samples, sampleOf(seed, o, 40, ""))
			}
		}
		for k, v := range o.Faults {
			res.Faults[k] += v
		}
		for k, v := range o.Probes {
			res.Probes[k] += v
		}
		res.Policies[o.Policy]++
		res.SimSeconds += o.SimTime.Seconds()
		res.Steps += int64(o.Steps)
		res.Yields += int64(o.Yields)
		res.Switches += int64(o.Switches)
		res.Preemptions += int64(o.Preemptions)
		if o.Stuck {
			res.Stuck++
		}
		if o.StepLimit {
			res.StepLimited++
		}
		// determinism re-check on a sample of seeds
		if res.Runs%50 == 1 {
			simrt.SchedLog = os.Getenv("VERIF_SCHEDLOG") != ""
			if simrt.SchedLog {
				o = runGuard(t, w, simrt.NewTape(seed), env)
			}
			o2 := runGuard(t, w, simrt.NewTape(seed), env)
			simrt.SchedLog = false
			res.Recheck++
			if o2.Digest() != o.Digest() {
				res.HarnessErr = fmt.Sprintf("NONDETERMINISM: seed %d gave digests %s and %s in the same process (events %d/%d stuck %v/%v steps %d/%d yields %d/%d switches %d/%d fp %x/%x stucktasks %v/%v)", seed, o.Digest(), o2.Digest(),
					len(o.Events), len(o2.Events), o.Stuck, o2.Stuck, o.Steps, o2.Steps, o.Yields, o2.Yields, o.Switches, o2.Switches, o.Fingerprint, o2.Fingerprint, o.StuckTasks, o2.StuckTasks)
				dumpDiff(o, o2)
				break
			}
		}
		stopNow := false
		for _, v := range o.Violations {
			if env.Prop != "" && v.Prop != env.Prop {
				res.OtherProps[v.Prop+" "+v.Rule]++
				continue
			}
			if key, ok := matchFinding(findings, v); ok {
				res.Known[key]++
				continue
			}
			// unknown violation: minimise, write replay, stop this worker
			rec := minimise(t, w, env, seed, o, v, findings, shrinkBudget, replayDir)
			res.Violations = append(res.Violations, rec)
			stopNow = true
			break
		}
		if stopNow {
			i++
			break
		}
	}
	res.NextRun = i
	for fp := range fps {
		res.Fingerprints = append(res.Fingerprints, fp)
	}
	sort.Slice(res.Fingerprints, func(a, b int) bool { return res.Fingerprints[a] < res.Fingerprints[b] })
	res.WallS = time.Since(start).Seconds()
	return res
}

func sampleOf(seed uint64, o *simrt.Outcome, n int, comment string) Sample {
	s := Sample{Seed: seed, Policy: o.Policy, Tasks: o.Tasks, Steps: o.Steps, Sim: o.SimTime.String(), Trace: trace(o, n), Comment: comment}
	for k, v := range o.Faults {
		s.Faults = append(s.Faults, fmt.Sprintf("%s×%d", k, v))
	}
	sort.Strings(s.Faults)
	return s
}

func dumpDiff(a, b *simrt.Outcome) {
	for i := 0; i < len(a.Sched) && i < len(b.Sched); i++ {
		if a.Sched[i] != b.Sched[i] {
			lo := i - 6
			if lo < 0 {
				lo = 0
			}
			for j := lo; j <= i+2 && j < len(a.Sched) && j < len(b.Sched); j++ {
				fmt.Fprintf(os.Stderr, "  SA %s\n  SB %s\n", a.Sched[j], b.Sched[j])
			}
			break
		}
	}
	n := len(a.Events)
	if len(b.Events) < n {
		n = len(b.Events)
	}
	for i := 0; i < n; i++ {
		if a.Events[i] != b.Events[i] {
			lo := i - 5
			if lo < 0 {
				lo = 0
			}
			for j := lo; j <= i; j++ {
				fmt.Fprintf(os.Stderr, "  A %s\n  B %s\n", a.Events[j], b.Events[j])
			}
			return
		}
	}
	fmt.Fprintf(os.Stderr, "  event logs share a prefix; lengths %d vs %d\n", len(a.Events), len(b.Events))
}

// runGuard runs one world run and converts panics of the harness itself into
// HarnessErr.
func runGuard(t *testing.T, w World, tape *simrt.Tape, env Env) (o *simrt.Outcome) {
	defer func() {
		if r := recover(); r != nil {
			buf := make([]byte, 1<<16)
			n := runtime.Stack(buf, false)
			o = &simrt.Outcome{HarnessErr: fmt.Sprintf("world panicked outside the simulation: %v\n%s", r, buf[:n]), Tape: tape,
				Probes: map[string]int{}, Faults: map[string]int{}}
		}
	}()
	return w.Run(t, tape, env)
}

func hasViolation(o *simrt.Outcome, prop, rule string) *simrt.Violation {
	for i := range o.Violations {
		if o.Violations[i].Prop == prop && o.Violations[i].Rule == rule {
			return &o.Violations[i]
		}
	}
	return nil
}

func minimise(t *testing.T, w World, env Env, seed uint64, o *simrt.Outcome, v simrt.Violation, findings []Finding, budget time.Duration, dir string) ViolationRecord {
	orig := o.Tape.Data()
	runs := 0
	best := orig
	bestOut := o
	bestV := v
	test := func(d simrt.TapeData) (simrt.TapeData, bool) {
		runs++
		heartbeat.Store(time.Now().UnixNano())
		oo := runGuard(t, w, simrt.ReplayTape(seed, d), env)
		if oo.HarnessErr != "" {
			return nil, false
		}
		vv := hasViolation(oo, v.Prop, v.Rule)
		if vv == nil {
			return nil, false
		}
		// do not shrink an unknown violation into a known finding
		if _, known := matchFinding(findings, *vv); known {
			return nil, false
		}
		nd := oo.Tape.Data()
		bestOut, bestV = oo, *vv
		return nd, true
	}
	// first make sure the recorded tape reproduces at all
	replayOK := false
	if nd, ok := test(orig); ok {
		replayOK = true
		best = Shrink(nd, test, budget)
	} else {
		bestOut, bestV = o, v
	}
	rec := ViolationRecord{Violation: bestV, Seed: seed, TapeLen: orig.Total(), ShrunkLen: best.Total(), ShrinkRun: runs, Panic: o.Panic, ReplayOK: replayOK}
	rf := ReplayFile{Property: v.Prop, World: w.Name, Rule: bestV.Rule, Sig: bestV.Sig, Tier: env.Tier, Seed: seed, Repo: os.Getenv("VERIF_REPO_ID"),
		Tape: best, Violation: bestV.Msg, Trace: trace(bestOut, 400)}
	if dir != "" {
		path := fmt.Sprintf("%s/%s-%s-%d.json", dir, v.Prop, w.Name, seed)
		b, _ := json.MarshalIndent(rf, "", " ")
		if err := os.WriteFile(path, b, 0o644); err == nil {
			rec.Replay = path
		}
	}
	return rec
}

// ReplayResult is the output of replay mode.
type ReplayResult struct {
	Reproduced bool              `json:"reproduced"`
	Violations []simrt.Violation `json:"violations"`
	Digest     string            `json:"digest"`
	Digest2    string            `json:"digest2"`
	HarnessErr string            `json:"harness_err,omitempty"`
	Trace      []string          `json:"trace"`
}

func replayOne(t *testing.T, w World, env Env, path string) *ReplayResult {
	b, err := os.ReadFile(path)
	if err != nil {
		return &ReplayResult{HarnessErr: err.Error()}
	}
	var rf ReplayFile
	if err := json.Unmarshal(b, &rf); err != nil {
		return &ReplayResult{HarnessErr: err.Error()}
	}
	if rf.World != w.Name {
		return &ReplayResult{HarnessErr: fmt.Sprintf("replay file is for world %q, this binary is %q", rf.World, w.Name)}
	}
	env.Prop = rf.Property
	if rf.Tier != "" {
		env.Tier = rf.Tier
	}
	o := runGuard(t, w, simrt.ReplayTape(rf.Seed, rf.Tape), env)
	o2 := runGuard(t, w, simrt.ReplayTape(rf.Seed, rf.Tape), env)
	r := &ReplayResult{Violations: o.Violations, Digest: o.Digest(), Digest2: o2.Digest(), HarnessErr: o.HarnessErr, Trace: trace(o, 400)}
	r.Reproduced = hasViolation(o, rf.Property, rf.Rule) != nil
	return r
}

// digests prints one digest per seed (determinism self-test).
func digests(t *testing.T, w World, env Env, outPath string) {
	base := envU64("VERIF_SEED", 1)
	n := envInt("VERIF_MAXRUNS", 40)
	out := map[string]string{}
	for i := 0; i < n; i++ {
		seed := RunSeed(base, w.Name, 0, i)
		o := runGuard(t, w, simrt.NewTape(seed), env)
		if o.HarnessErr != "" {
			out[fmt.Sprint(seed)] = "HARNESS:" + o.HarnessErr
			continue
		}
		out[fmt.Sprint(seed)] = o.Digest()
	}
	writeJSON(outPath, out)
}
