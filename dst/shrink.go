package dst

import (
	"time"

	"verif/simrt"
)

// Shrink minimises a failing tape. test re-executes a candidate and returns
// the tape that run actually consumed (normalised) and whether the same
// violation class persisted. Passes: truncate streams, zero blocks (removes
// context switches and faults), delete blocks (removes workload steps),
// lower values; repeated to a fixed point or the time budget.
func Shrink(d simrt.TapeData, test func(simrt.TapeData) (simrt.TapeData, bool), budget time.Duration) simrt.TapeData {
	deadline := time.Now().Add(budget)
	best := d.Clone()
	try := func(c simrt.TapeData) bool {
		if time.Now().After(deadline) {
			return false
		}
		if nd, ok := test(c); ok {
			// accept only if not larger (normalisation may lengthen streams)
			if weight(nd) <= weight(best) {
				best = nd
			} else {
				best = c
			}
			return true
		}
		return false
	}
	order := []string{"sched", "fault", "net", "clock", "wl", "rand", "cfg"}
	for round := 0; round < 8; round++ {
		before := weight(best)
		for _, name := range order {
			// 1. truncate
			for n := len(best[name]); n > 0; {
				cut := n / 2
				c := best.Clone()
				c[name] = c[name][:cut]
				if try(c) {
					n = len(best[name])
					if n > cut {
						n = cut
					}
					continue
				}
				break
			}
			// 2. zero blocks
			for size := len(best[name]); size >= 1; size /= 2 {
				for off := 0; off < len(best[name]); off += size {
					end := off + size
					if end > len(best[name]) {
						end = len(best[name])
					}
					allZero := true
					for _, v := range best[name][off:end] {
						if v != 0 {
							allZero = false
							break
						}
					}
					if allZero {
						continue
					}
					c := best.Clone()
					for i := off; i < end && i < len(c[name]); i++ {
						c[name][i] = 0
					}
					try(c)
					if time.Now().After(deadline) {
						return trimZeros(best)
					}
				}
			}
			// 3. delete blocks (workload-like streams only)
			if name == "wl" || name == "net" || name == "fault" {
				for size := len(best[name]) / 2; size >= 1; size /= 2 {
					for off := 0; off+size <= len(best[name]); {
						c := best.Clone()
						c[name] = append(append([]uint32(nil), c[name][:off]...), c[name][off+size:]...)
						if !try(c) {
							off += size
						}
						if time.Now().After(deadline) {
							return trimZeros(best)
						}
					}
				}
			}
			// 4. lower values
			if name != "sched" {
				for i := 0; i < len(best[name]); i++ {
					for best[name][i] > 0 {
						c := best.Clone()
						c[name][i] /= 2
						if !try(c) {
							break
						}
						if i >= len(best[name]) {
							break
						}
					}
					if i < len(best[name]) && best[name][i] > 1 {
						c := best.Clone()
						c[name][i]--
						try(c)
					}
					if time.Now().After(deadline) {
						return trimZeros(best)
					}
				}
			}
		}
		if weight(best) >= before {
			break
		}
	}
	return trimZeros(best)
}

// weight orders tapes: fewer non-zero entries first, then shorter, then smaller.
func weight(d simrt.TapeData) int64 {
	var nz, n, sum int64
	for _, v := range d {
		for _, x := range v {
			if x != 0 {
				nz++
				sum += int64(x)
			}
			n++
		}
	}
	return nz<<40 + n<<20 + sum%(1<<20)
}

// trimZeros drops trailing zeros (a replay serves zeros past the end).
func trimZeros(d simrt.TapeData) simrt.TapeData {
	for k, v := range d {
		n := len(v)
		for n > 0 && v[n-1] == 0 {
			n--
		}
		d[k] = v[:n]
	}
	return d
}
